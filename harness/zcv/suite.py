"""The repository's own test-suite as a source of recorded executions (direction V): it is run once, in a
subprocess, with zcv.suite_plugin loaded; the spans it records are validated by TLC against the resource
discipline (C19, ZResources) and against "loads never write the schema" (C13, ZSchemaStable)."""
import json
import os
import shutil
import subprocess
import sys

from . import tlc
from .core import REPO, VERIF


def run_suite(timeout=600):
    """-> (list of spans or None, last line of pytest's output)."""
    d = tlc.mkscratch("zcv-suite-")
    out = os.path.join(d, "spans.json")
    try:
        env = dict(os.environ, ZCV_SUITE_OUT=out, PYTHONDONTWRITEBYTECODE="1",
                   PYTHONPATH=os.pathsep.join([os.path.join(REPO, "src"), os.path.join(VERIF, "harness")]))
        try:
            p = subprocess.run([sys.executable, "-m", "pytest", "-q", "--no-header", "-p", "no:cacheprovider",
                                "-p", "zcv.suite_plugin", "--basetemp", os.path.join(d, "bt"),
                                "--deselect", "src/ZConfig/tests/test_validator.py::TestValidator::test_schema_only",
                                os.path.join(REPO, "src", "ZConfig")],
                               cwd=REPO, env=env, stdout=subprocess.PIPE, stderr=subprocess.STDOUT, text=True,
                               timeout=timeout)
            tail = p.stdout.strip().splitlines()[-1:] if p.stdout else []
        except subprocess.TimeoutExpired:
            tail = ["timed out"]
        if not os.path.exists(out):
            return None, tail
        with open(out) as f:
            return json.load(f)["spans"], tail
    finally:
        shutil.rmtree(d, ignore_errors=True)
