"""pytest plugin (-p zcv.suite_plugin): records what the repository's own test-suite does with resources.

Every outermost call of a loading entry point (BaseLoader.loadURL / loadFile, through which
ZConfig.loadSchema*, loadConfig* and the schema-less loader's own callers all go) made by a test is one
*span*; the resource events inside it (Resource created / closed, URL stream opened / closed, observed by
wrapping the documented Resource class and urllib.request.urlopen - nothing in /repo is touched) are one
trace, written to $ZCV_SUITE_OUT as JSON when the session ends.  Resource files are not proxied here (tests
may look at them), and nothing a test does outside such a call is recorded: a unit test that opens a
resource by hand and never closes it is no business of property C19.
"""
import json
import os

import ZConfig.loader

from . import obs

_STATE = {"obs": None, "depth": 0, "spans": [], "test": "", "start": 0, "nres": 0, "orig": {}, "before": None}


def _describe(loader):
    """The description of the application schema a configuration loader was made for (C13), or None."""
    app = getattr(loader, "_zcv_app", None)
    if app is None:
        return None
    try:
        from . import scenario
        return scenario.session_digest(app)
    except Exception:
        return None


def _wrap(name):
    orig = getattr(ZConfig.loader.BaseLoader, name)
    _STATE["orig"][name] = orig

    def wrapper(self, *a, **kw):
        st = _STATE
        o = st["obs"]
        outer = st["depth"] == 0
        if outer:
            st["start"], st["nres"] = len(o.events), len(o.resources)
            st["before"] = _describe(self)
        st["depth"] += 1
        how = "returned"
        try:
            return orig(self, *a, **kw)
        except BaseException as e:
            how = type(e).__name__
            raise
        finally:
            st["depth"] -= 1
            if outer:
                ev = o.events[st["start"]:]
                res = o.resources[st["nres"]:]
                after = _describe(self) if st["before"] is not None else None
                st["spans"].append({"test": st["test"], "entry": "%s.%s" % (type(self).__name__, name), "ended": how,
                                    "schema": None if after is None else {"before": st["before"], "after": after},
                                    "events": [[k, str(u)] for k, u in ev],
                                    "allclosed": all(r.closed for r in res), "resources": len(res)})
    wrapper.__name__ = name
    setattr(ZConfig.loader.BaseLoader, name, wrapper)


def pytest_sessionstart(session):
    o = obs.Observer(proxy_files=False)
    o.__enter__()
    _STATE["obs"] = o
    for name in ("loadURL", "loadFile"):
        _wrap(name)
    # which schema object a configuration loader was made for (loader.schema itself is swapped for a private copy
    # while a load that uses %import is under way)
    init = ZConfig.loader.ConfigLoader.__init__
    _STATE["orig"]["__init__"] = init

    def cl_init(self, schema, *a, **kw):
        init(self, schema, *a, **kw)
        self._zcv_app = schema
    ZConfig.loader.ConfigLoader.__init__ = cl_init


def pytest_runtest_setup(item):
    _STATE["test"] = item.nodeid
    _STATE["depth"] = 0


def pytest_sessionfinish(session, exitstatus):
    o = _STATE["obs"]
    if o is not None:
        for name, orig in _STATE["orig"].items():
            setattr(ZConfig.loader.ConfigLoader if name == "__init__" else ZConfig.loader.BaseLoader, name, orig)
        o.__exit__(None, None, None)
    out = os.environ.get("ZCV_SUITE_OUT")
    if out:
        with open(out, "w") as f:
            json.dump({"spans": _STATE["spans"], "exitstatus": int(exitstatus)}, f)
