"""alpha: real ZConfig objects -> abstract values comparable with what the
TLA+ specifications produce."""
import ZConfig
from ZConfig import info as zinfo

from . import dts
from .chars import dec, enc


def exc_outcome(e):
    """Exception -> abstract error outcome (most specific family first)."""
    if isinstance(e, ZConfig.DataConversionError):
        return {"r": "err", "kind": "conv", "line": e.lineno, "url": e.url, "value": e.value,
                "exc": type(e.exception).__name__}
    if isinstance(e, ZConfig.SubstitutionSyntaxError):
        return {"r": "err", "kind": "substsyntax", "line": getattr(e, "lineno", None), "url": e.url}
    if isinstance(e, ZConfig.ConfigurationSyntaxError):
        return {"r": "err", "kind": "syntax", "line": e.lineno, "url": e.url}
    if isinstance(e, ZConfig.ConfigurationError):
        return {"r": "err", "kind": "config", "line": getattr(e, "lineno", None), "url": e.url}
    return {"r": "err", "kind": "internal:" + type(e).__name__, "line": None, "url": None}


def _bad(v):
    return {"t": "unexpected", "repr": repr(v)[:200]}


def proj_value(v, child, rec):
    """Project one attribute value, guided by the kind of the declared item."""
    kind, wild = child["kind"], child["name"] == "+"
    if kind == "key" and not wild:
        return {"t": "none"} if v is None else {"t": "v", "v": repr(v)}
    if kind == "multikey" and not wild:
        return {"t": "list", "items": [repr(x) for x in v]} if isinstance(v, list) else _bad(v)
    if kind == "key":
        return {"t": "map", "items": {k: repr(x) for k, x in v.items()}} if isinstance(v, dict) else _bad(v)
    if kind == "multikey":
        if isinstance(v, dict) and all(isinstance(x, list) for x in v.values()):
            return {"t": "mapl", "items": {k: [repr(y) for y in x] for k, x in v.items()}}
        return _bad(v)
    if kind == "section":
        return {"t": "none"} if v is None else {"t": "sec", "v": proj_section(v, rec)}
    if isinstance(v, list):
        return {"t": "secs", "items": [proj_section(x, rec) for x in v]}
    return _bad(v)


def proj_section(sv, rec, top=False):
    """rec: abstract schema record (schemas.expand); the section's own type
    decides how each attribute is read."""
    if isinstance(sv, dts.Wrapped):
        return {"wrapped": proj_section(sv.section, rec, top)}
    if not hasattr(sv, "getSectionAttributes"):
        return {"unexpected": repr(sv)[:200]}
    tname = sv.getSectionType() or ""
    T = rec["top"] if top else rec["types"].get(tname)
    attrs = list(sv.getSectionAttributes())
    # everything the section value carries besides its own book-keeping (a declared attribute may itself
    # begin with an underscore)
    public = sorted(k for k in sv.__dict__ if k not in ("_name", "_matcher", "_attributes"))
    out = {"type": tname, "name": sv.getSectionName() or "", "attrs": {}}
    if T is None or T["abstract"]:
        out["unknown_type"] = True
        return out
    declared = {c["attr"]: c for c in T["children"]}
    for a in attrs:
        if a in declared:
            out["attrs"][a] = proj_value(getattr(sv, a), declared[a], rec)
        else:
            out["attrs"][a] = {"t": "undeclared", "repr": repr(getattr(sv, a))[:200]}
    if public != sorted(attrs):
        out["attr_mismatch"] = [public, sorted(attrs)]
    return out


# the real tree in the specification's own representation (for TLC) -------------
def spec_value(v, child, rec):
    kind, wild = child["kind"], child["name"] == "+"
    bad = {"t": "bad", "repr": repr(v)[:100]}
    if kind == "key" and not wild:
        return {"t": "none"} if v is None else {"t": "v", "v": repr(v)}
    if kind == "multikey" and not wild:
        return {"t": "list", "items": [repr(x) for x in v]} if isinstance(v, list) else bad
    if kind == "key":
        return {"t": "map", "items": [[k, repr(x)] for k, x in v.items()]} if isinstance(v, dict) else bad
    if kind == "multikey":
        if isinstance(v, dict) and all(isinstance(x, list) for x in v.values()):
            return {"t": "mapl", "items": [[k, [repr(y) for y in x]] for k, x in v.items()]}
        return bad
    if kind == "section":
        return {"t": "none"} if v is None else {"t": "sec", "v": spec_tree(v, rec)}
    return {"t": "secs", "items": [spec_tree(x, rec) for x in v]} if isinstance(v, list) else bad


def spec_tree(sv, rec, top=False):
    if isinstance(sv, dts.Wrapped):
        return {"wrapped": spec_tree(sv.section, rec, top)}
    if not hasattr(sv, "getSectionAttributes"):
        return {"type": "~bad~", "name": "", "attrs": []}
    tname = sv.getSectionType() or ""
    T = rec["top"] if top else rec["types"].get(tname)
    if T is None or T.get("abstract"):
        return {"type": enc(tname), "name": enc(sv.getSectionName() or ""), "attrs": [["~unknown-type~", {"t": "bad"}]]}
    attrs = []
    have = set(sv.getSectionAttributes())
    for c in T["children"]:
        if c["attr"] in have:
            attrs.append([c["attr"], spec_value(getattr(sv, c["attr"]), c, rec)])
        else:
            attrs.append([c["attr"], {"t": "missing"}])
    for a in sorted(have - {c["attr"] for c in T["children"]}):
        attrs.append([a, {"t": "undeclared"}])
    # text as the specification sees it: character tokens
    return {"type": enc(tname), "name": enc(sv.getSectionName() or ""), "attrs": attrs}


# canonical form of the specification's tree (JSON from TLC) -------------------
def canon_value(v):
    t = v["t"]
    if t == "none":
        return {"t": "none"}
    if t == "v":
        return {"t": "v", "v": v["v"]}
    if t == "list":
        return {"t": "list", "items": list(v["items"])}
    if t == "secs":
        return {"t": "secs", "items": [canon_section(x) for x in v["items"]]}
    if t == "map":
        return {"t": "map", "items": {k: x for k, x in v["items"]}}
    if t == "mapl":
        return {"t": "mapl", "items": {k: list(x) for k, x in v["items"]}}
    if t == "sec":
        return {"t": "sec", "v": canon_section(v["v"])}
    raise ValueError(t)


def canon_section(sv):
    if "wrapped" in sv:
        return {"wrapped": canon_section(sv["wrapped"])}
    # the specification's text is character tokens (chars.enc)
    return {"type": dec(sv["type"]), "name": dec(sv["name"]), "attrs": {a: canon_value(x) for a, x in sv["attrs"]}}


# schema digest ------------------------------------------------------------------
def _dtname(schema, conv):
    return schema.registry.find_name(conv)


def _vi(x):
    # a default is stored as a ValueInfo; anything else in its place is reported as part of the digest
    # (so that it shows as a difference) instead of crashing the projection
    return x.value if hasattr(x, "value") and hasattr(x, "position") else "~not-a-ValueInfo:%r~" % (x,)


def digest_type(schema, t, with_handler=False):
    if t.isabstract():
        return {"abstract": True, "impl": sorted(t.getsubtypenames())}
    ch = []
    for key, ci in t:
        if ci.issection():
            kind = "multisection" if ci.ismulti() else "section"
            d = {"kind": kind, "name": ci.name, "attr": ci.attribute, "dt": "", "stype": ci.sectiontype.name,
                 "req": ci.minOccurs > 0, "dflt": [], "handler": ci.handler or ""}
        else:
            kind = "multikey" if ci.ismulti() else "key"
            df = ci.getdefault()
            if ci.name == "+":
                if kind == "key":
                    dflt = [[k, _vi(v)] for k, v in df.items()]
                else:
                    dflt = [[k, [_vi(x) for x in v]] for k, v in df.items()]
            elif kind == "key":
                dflt = [] if df is None else [_vi(df)]
            else:
                dflt = [_vi(x) for x in df]
            d = {"kind": kind, "name": ci.name, "attr": ci.attribute, "dt": _dtname(schema, ci.datatype),
                 "stype": "", "req": ci.minOccurs > 0, "dflt": dflt, "handler": ci.handler or ""}
        ch.append(d)
    out = {"abstract": False, "keytype": _dtname(schema, t.keytype), "datatype": _dtname(schema, t.datatype),
           "children": ch}
    if with_handler:
        out["handler"] = t.handler or ""
    return out


def digest_schema(schema):
    return {"top": digest_type(schema, schema, True),
            "types": {n: digest_type(schema, schema.gettype(n)) for n in schema.gettypenames()}}


def digest_expected(rec):
    """The same digest computed from an abstract record (schemas.expand)."""
    from .schemas import DT_XML

    def dt(n):
        return DT_XML.get(n, n)

    def typ(t, with_handler=False):
        if t["abstract"]:
            return {"abstract": True, "impl": sorted(t["impl"])}
        ch = []
        for c in t["children"]:
            d = {k: c[k] for k in ("kind", "name", "attr", "dt", "stype", "req", "handler")}
            d["dflt"] = [list(x) if isinstance(x, (list, tuple)) else x for x in c["dflt"]]
            ch.append(d)
        out = {"abstract": False, "keytype": dt(t["keytype"]), "datatype": dt(t["datatype"]), "children": ch}
        if with_handler:
            out["handler"] = t.get("handler", "")
        return out
    return {"top": typ(rec["top"], True), "types": {n: typ(t) for n, t in rec["types"].items()}}
