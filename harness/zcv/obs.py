"""Observation of resource handling without hooks in /repo: the documented
ZConfig.loader.Resource class and urllib.request.urlopen are wrapped at run
time (and restored afterwards); optional fault injection on reads."""
import urllib.request

import ZConfig.loader


class Injected(OSError):
    pass


class FileProxy:
    def __init__(self, f, obs, url):
        self._f, self._obs, self._url = f, obs, url
        self._n = 0

    def _tick(self):
        self._n += 1
        flt = self._obs.fault
        if flt and flt[0](self._url) and flt[1] == self._n:
            raise Injected("zcv-injected read failure")

    def readline(self, *a):
        self._tick()
        return self._f.readline(*a)

    def read(self, *a):
        self._tick()
        return self._f.read(*a)

    def close(self):
        return self._f.close()

    def __getattr__(self, n):
        return getattr(self._f, n)


class StreamProxy:
    def __init__(self, s, obs, url):
        self._s, self._obs, self._url = s, obs, url

    def read(self, *a):
        sf = self._obs.stream_fault
        if sf and sf(self._url):
            raise Injected("zcv-injected stream read failure")
        return self._s.read(*a)

    def close(self):
        self._obs.events.append(("stream-close", self._url))
        return self._s.close()

    def __getattr__(self, n):
        return getattr(self._s, n)


class Observer:
    """with Observer(fault=(url predicate, n)) as o: ...; o.events, o.all_closed()"""

    def __init__(self, fault=None, stream_fault=None, proxy_files=True):
        self.proxy_files = proxy_files
        self.events = []
        self.resources = []
        self.fault = fault
        self.stream_fault = stream_fault

    def __enter__(self):
        obs = self
        R = ZConfig.loader.Resource
        self._init, self._close, self._urlopen = R.__init__, R.close, urllib.request.urlopen

        def init(res, file, url):
            obs._init(res, FileProxy(file, obs, url) if obs.proxy_files else file, url)
            obs.resources.append(res)
            obs.events.append(("open", url))

        def close(res):
            if res.file is not None:
                obs.events.append(("close", res.url))
            return obs._close(res)

        def urlopen(url, *a, **kw):
            s = obs._urlopen(url, *a, **kw)
            obs.events.append(("stream-open", str(url)))
            return StreamProxy(s, obs, str(url))
        R.__init__, R.close, urllib.request.urlopen = init, close, urlopen
        return self

    def __exit__(self, *a):
        R = ZConfig.loader.Resource
        R.__init__, R.close, urllib.request.urlopen = self._init, self._close, self._urlopen

    def all_closed(self):
        return all(r.closed for r in self.resources)
