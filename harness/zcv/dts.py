"""Datatype callables named (by dotted name) in rendered schemas."""


class Wrapped:
    """Section datatype that wraps its argument."""

    def __init__(self, section):
        self.section = section

    def __repr__(self):
        return "Wrapped(%r)" % (self.section,)


def wrap(section):
    return Wrapped(section)


def reject(section):
    raise ValueError("section refused by its datatype")


def boom(value):
    """A datatype function that fails with a non-ValueError exception."""
    raise KeyError("datatype failure: %r" % (value,))


def boomkey(value):
    """A key datatype that fails with a non-ValueError exception on one text."""
    if value == "BOOM":
        raise KeyError("datatype failure: %r" % (value,))
    return value


def Wrap(section):
    """A second section datatype whose dotted name differs from `wrap` only in letter case (datatype names found
    by import are case-sensitive)."""
    return Wrapped(("Wrap", section))


def dcerr(value):
    """A datatype that itself reads something with ZConfig (think: the name of a second configuration file) and
    lets the DataConversionError of that inner load - a ValueError like any other - escape: the value it was given
    is unconvertible, and the inner error's position is not the position of that value."""
    if value.endswith("!"):
        import ZConfig
        raise ZConfig.DataConversionError(ValueError("inner value refused"), "inner text",
                                          (7, 2, "file:///zcv-inner/rules.conf"))
    return value
