"""Schema documents as trees (the representation of spec/ZSchemaLang.tla),
their XML rendering, the environment tables the specification needs, the
edit operators of C10 and the execution of a document on the real code.

A node is {"tag", "a", "kids", "text"}.  A *world* is a set of resources
(rid -> tree): schema documents that live as files in one scratch directory
(rid = file name) and component documents that live in generated packages
(rid = "pkg:<package>:<file>").
"""
import copy
import io
import os
import re
import sys
from xml.sax.saxutils import escape, quoteattr

from . import refconv
from .schemas import DT_XML

ITEM_TAGS = ("key", "multikey", "section", "multisection")
TYPE_TAGS = ("sectiontype", "abstracttype")
CDATA_TAGS = ("description", "metadefault", "example", "default")

# documented standard datatypes (docs/standard-datatypes.rst) + string-list and the socket-*-address pair
STOCK = {"basic-key", "boolean", "byte-size", "dotted-name", "dotted-suffix", "existing-dirpath",
         "existing-directory", "existing-file", "existing-path", "float", "identifier", "inet-address",
         "inet-binding-address", "inet-connection-address", "integer", "ipaddr-or-hostname", "locale", "null",
         "port-number", "socket-address", "socket-binding-address", "socket-connection-address", "string",
         "string-list", "time-interval", "timedelta"}
EXISTING_DOTTED = {"zcv.dts.wrap", "zcv.dts.reject", "zcv.dts.boom", "zcv.dts.boomkey"}
KEYTYPES = ("basic-key", "identifier", "ipaddr-or-hostname")

_ident = re.compile(r"[_a-zA-Z][_a-zA-Z0-9]*\Z")
_dotted = re.compile(r"[_a-zA-Z][_a-zA-Z0-9]*(\.[_a-zA-Z][_a-zA-Z0-9]*)*\Z")
_dotted_suffix = re.compile(r"(\.?[_a-zA-Z][_a-zA-Z0-9]*(\.[_a-zA-Z][_a-zA-Z0-9]*)*|(\.[_a-zA-Z][_a-zA-Z0-9]*)+)\Z")


def N(tag, a=None, kids=(), text=""):
    return {"tag": tag, "a": dict(a or {}), "kids": list(kids), "text": text}


# -- from the C01 family documents (schemas.py) --------------------------------
def _put(a, k, v):
    if v is not None:
        a[k] = v


def item_node(c):
    a = {}
    if c["el"] in ("key", "multikey"):
        a["name"] = c["name"]
    else:
        a["type"] = c["type"]
        a["name"] = c["name"]
    _put(a, "attribute", c["attribute"])
    _put(a, "datatype", DT_XML.get(c["datatype"], c["datatype"]) if c["datatype"] else None)
    if c["required"]:
        a["required"] = "yes"
    _put(a, "handler", c["handler"])
    kids = []
    if c["el"] == "key" and c["default"] is not None:
        a["default"] = c["default"]
    if c["el"] in ("key", "multikey"):
        for d in c["defaults"]:
            if c["name"] == "+":
                kids.append(N("default", {"key": d[0]}, text=d[1]))
            else:
                kids.append(N("default", text=d))
    return N(c["el"], a, kids)


def type_node(td):
    if "import" in td:
        return N("import", {"package": td["import"]})
    if td["abstract"]:
        return N("abstracttype", {"name": td["name"]})
    a = {"name": td["name"]}
    _put(a, "keytype", td["keytype"])
    _put(a, "datatype", DT_XML.get(td["datatype"], td["datatype"]) if td["datatype"] else None)
    _put(a, "extends", td.get("extends"))
    _put(a, "implements", td.get("implements"))
    return N("sectiontype", a, [item_node(c) for c in td["children"]])


def from_family(doc, top="schema"):
    a = {}
    _put(a, "keytype", doc.get("keytype"))
    _put(a, "datatype", DT_XML.get(doc.get("datatype"), doc.get("datatype")) if doc.get("datatype") else None)
    _put(a, "handler", doc.get("handler"))
    return N(top, a, [type_node(t) for t in doc["types"]] + [item_node(c) for c in doc.get("children", [])])


# -- XML ---------------------------------------------------------------------------
def to_xml(n, ind=""):
    attrs = "".join(" %s=%s" % (k, quoteattr(v)) for k, v in n["a"].items())
    if not n["kids"] and not n["text"]:
        return "%s<%s%s/>\n" % (ind, n["tag"], attrs)
    out = ["%s<%s%s>" % (ind, n["tag"], attrs)]
    if n["text"]:
        out.append(escape(n["text"]) if not n["kids"] else "\n%s  %s" % (ind, escape(n["text"])))
    if n["kids"]:
        out.append("\n")
        for k in n["kids"]:
            out.append(to_xml(k, ind + "  "))
        out.append(ind)
    out.append("</%s>\n" % n["tag"])
    return "".join(out)


# -- walking -------------------------------------------------------------------------
def walk(n, path=()):
    yield path, n
    for i, k in enumerate(n["kids"]):
        yield from walk(k, path + (i,))


def node_at(n, path):
    for i in path:
        n = n["kids"][i]
    return n


# -- environment tables ----------------------------------------------------------------
class World:
    """Resources + what references and package names resolve to."""

    def __init__(self):
        self.docs = {}          # rid -> tree
        self.refs = {}          # "rid|ref" -> {"frag": bool, "rid": str}
        self.pkgs = {}          # "pkg|file" -> {"ok": bool, "url": str, "rid": str}
        self.files = {}         # file name in the scratch directory -> rid
        self.pkgfiles = {}      # (package, file) -> rid

    def add_file(self, name, tree):
        self.docs[name] = tree
        self.files[name] = name
        return name

    def add_component(self, pkg, file, tree):
        rid = "pkg:%s:%s" % (pkg, file)
        self.docs[rid] = tree
        self.pkgfiles[(pkg, file)] = rid
        return rid


PKG_NAMES = ("zcvsd_a", "zcvsd_b", "zcvsd_c", "zcvsd_d", "zcvsd_e")
PKG_BROKEN = {"zcvsd_nocomp": False, "zcvsdmod_plain": False, "zcvsd_missing": False}


def tokens_of(world):
    toks = set()
    for t in world.docs.values():
        for _, n in walk(t):
            toks.update(n["a"].values())
    return toks


def tables(world):
    """Everything ZSchemaLang takes from the environment, for the tokens of this world."""
    toks = tokens_of(world) | {"", "*", "+"} | set(STOCK) | set(EXISTING_DOTTED)
    more = set()
    for t in toks:
        more.add(t.strip())
        more.add(t.lower())
        more.update(t.split())
    toks |= more
    # closure under key normalisation
    for _ in range(2):
        for t in list(toks):
            for kt in KEYTYPES:
                r = refconv.keyconv(kt, t)
                if r is not None:
                    toks.add(r)
    prefixes = {""}
    for t in world.docs.values():
        for _, n in walk(t):
            p = n["a"].get("prefix")
            if p:
                prefixes.add(p)
    for p in list(prefixes):
        for q in list(prefixes):
            if q.startswith("."):
                prefixes.add(p + q)
    keynorm = {}
    for kt in KEYTYPES:
        for t in toks:
            r = refconv.keyconv(kt, t)
            if r is not None:
                keynorm["%s|%s" % (kt, t)] = r
    attrof = {}
    for t in toks:
        bk = refconv.keyconv("basic-key", t)
        if bk is not None:
            a = bk.replace("-", "_")
            if _ident.match(a):
                attrof[t] = a
    dtcanon = {}
    names = set(toks)
    for p in prefixes:
        for t in toks:
            if t.startswith("."):
                names.add(p + t)
    for nm in names:
        if "." not in nm:
            bk = refconv.keyconv("basic-key", nm)
            if bk is not None and bk in STOCK:
                dtcanon[nm] = bk
        elif nm in EXISTING_DOTTED:
            dtcanon[nm] = nm
        else:
            dtcanon[nm] = "~unres~"
    refs = dict(world.refs)
    for rid, tree in world.docs.items():
        rtoks = set()
        for _, n in walk(tree):
            if n["tag"] == "import" and "src" in n["a"]:
                rtoks.add(n["a"]["src"].strip())
            if n["tag"] == "schema" and "extends" in n["a"]:
                rtoks.update(n["a"]["extends"].split())
        for t in rtoks:
            base, _, frag = t.partition("#")
            key = "%s|%s" % (rid, t)
            if key in refs:
                continue
            if base in world.files and not rid.startswith("pkg:"):
                refs[key] = {"frag": bool(frag), "rid": world.files[base]}
            elif "#" in t:
                refs[key] = {"frag": bool(frag), "rid": ""}
    pkgs = {}
    for (pkg, file), rid in world.pkgfiles.items():
        pkgs["%s|%s" % (pkg, file)] = {"ok": True, "url": "package:%s:%s" % (pkg, file), "rid": rid}
        if file == "component.xml":
            pkgs["%s|" % pkg] = {"ok": True, "url": "package:%s:component.xml" % pkg, "rid": rid}
    return {
        "keynorm": keynorm or {"~": "~"},
        "lower": {t: t.lower() for t in toks if t.lower() != t} or {"~": "~"},
        "attrof": attrof or {"~": "~"},
        "ident": {t: True for t in toks if _ident.match(t)} or {"~": True},
        "reserved": {t: True for t in toks if t.startswith("getSection")} or {"~": True},
        "rel": {t: True for t in names if t.startswith(".")} or {"~": True},
        "dtcanon": dtcanon or {"~": "~"},
        "pfxabs": {t: True for t in toks if _dotted.match(t)} or {"~": True},
        "pfxrel": {t: True for t in toks if _dotted_suffix.match(t)} or {"~": True},
        "strip": {t: t.strip() for t in toks if t.strip() != t} or {"~": "~"},
        "dirpart": {t: True for t in toks if os.path.dirname(t)} or {"~": True},
        "split": {t: t.split() for t in toks if t.split() != [t]} or {"~": ["~"]},
        "refs": refs or {"~": {"frag": False, "rid": ""}},
        "pkgs": pkgs or {"~": {"ok": False, "url": "", "rid": ""}},
    }


# -- the real code ----------------------------------------------------------------------
def materialise(world, root):
    """Write the file resources below root and the component resources into
    packages below root/pkgs (put on sys.path)."""
    os.makedirs(root, exist_ok=True)
    for name, rid in world.files.items():
        with open(os.path.join(root, name), "w", encoding="utf-8") as f:
            f.write(to_xml(world.docs[rid]))
    proot = os.path.join(root, "pkgs")
    os.makedirs(proot, exist_ok=True)
    for name in list(PKG_NAMES) + ["zcvsd_nocomp"]:
        d = os.path.join(proot, name)
        os.makedirs(d, exist_ok=True)
        p = os.path.join(d, "__init__.py")
        if not os.path.exists(p):
            open(p, "w").close()
    with open(os.path.join(proot, "zcvsdmod_plain.py"), "w") as f:
        f.write("# a module, not a package\n")
    for (pkg, file), rid in world.pkgfiles.items():
        d = proot
        for part in pkg.split("."):
            d = os.path.join(d, part)
            os.makedirs(d, exist_ok=True)
            p = os.path.join(d, "__init__.py")
            if not os.path.exists(p):
                open(p, "w").close()
        with open(os.path.join(d, file), "w", encoding="utf-8") as f:
            f.write(to_xml(world.docs[rid]))
    if proot not in sys.path:
        sys.path.insert(0, proot)
    import importlib
    importlib.invalidate_caches()


_PERSISTENT = {}


def load_real(world, root, rid, fresh_loader=True):
    """Load resource rid as a schema on the real code.  -> (schema or None, outcome dict)
    Documents without a URL go through one SchemaLoader object per process: a loader that has read other
    documents before must judge this one on its own (documents with a URL are cached by URL, by design)."""
    import ZConfig
    import ZConfig.loader
    try:
        if rid in world.files.values() and sum(map(ord, rid)) % 3 == 0:
            sch = ZConfig.loadSchema(os.path.join(root, rid))
        elif rid in world.files.values():
            # one long-lived SchemaLoader per process (every scenario has resource names of its own, so what the
            # loader remembers by URL never answers for another scenario): a document it refuses it refuses again
            # when asked again - a failed load leaves nothing behind
            ld = _PERSISTENT.setdefault("url-loader", ZConfig.loader.SchemaLoader())
            try:
                sch = ld.loadURL(os.path.join(root, rid))
            except ZConfig.SchemaError:
                sch = ld.loadURL(os.path.join(root, rid))
                return sch, {"ok": True, "note": "refused first, accepted when the same loader was asked again"}
        elif fresh_loader is False or (sum(map(ord, rid)) % 2 == 0):
            ld = _PERSISTENT.setdefault("loader", ZConfig.loader.SchemaLoader())
            sch = ld.loadFile(io.StringIO(to_xml(world.docs[rid])))
        else:
            sch = ZConfig.loadSchemaFile(io.StringIO(to_xml(world.docs[rid])))
    except ZConfig.SchemaError as e:
        return None, {"ok": False, "cls": "SchemaError", "exc": type(e).__name__, "msg": str(e)[:200]}
    except Exception as e:
        return None, {"ok": False, "cls": "other", "exc": type(e).__name__, "msg": str(e)[:200]}
    return sch, {"ok": True}


def load_tree(tree):
    import ZConfig
    try:
        return ZConfig.loadSchemaFile(io.StringIO(to_xml(tree))), {"ok": True}
    except ZConfig.SchemaError as e:
        return None, {"ok": False, "cls": "SchemaError", "exc": type(e).__name__, "msg": str(e)[:200]}
    except Exception as e:
        return None, {"ok": False, "cls": "other", "exc": type(e).__name__, "msg": str(e)[:200]}


def canon_digest(d):
    """Digest emitted by TLC (JSON) -> the form project.digest_schema produces."""
    def typ(t, top=False):
        if t["abstract"]:
            return {"abstract": True, "impl": sorted(t["impl"])}
        out = {"abstract": False, "keytype": t["keytype"], "datatype": t["datatype"],
               "children": [dict(c, dflt=[list(x) if isinstance(x, (list, tuple)) else x for x in c["dflt"]])
                            for c in t["children"]]}
        if top:
            out["handler"] = t["handler"]
        return out
    types = d["types"] if isinstance(d["types"], dict) else {}
    return {"top": typ(d["top"], True), "types": {n: typ(t) for n, t in types.items()}}


# -- edits (C10) ---------------------------------------------------------------------------
POOL = {
    "name": ["", "*", "+", "9bad", "has space", "fresh-name", "getSectionX", "K1", "k1", "\u212a1", "a\u017f", "dot.ted"],
    "attribute": ["", "9x", "a-b", "getSectionFoo", "fresh_attr", "k1"],
    "type": ["", "nosuch", "T1", "abs1"],
    "extends": ["", "nosuch", "9bad", "abs1", "t1"],
    "implements": ["", "nosuch", "9bad", "abs1", "t1"],
    "required": ["yes", "no", "true", "YES", ""],
    "datatype": ["integer", "Integer", "nosuch", "no such", "zcv.dts.wrap", "boo\u212aean", ""],
    "keytype": ["identifier", "Basic-Key", "nosuch", "ipaddr-or-hostname", ""],
    "valuetype": ["string", "nosuch"],
    "handler": ["h1", "9h", "", "H-2", "\u212ah"],
    "default": ["v", ""],
    "key": ["dk9", "", "9k", "D1", "d1"],
    "prefix": ["zcv.dts", ".dts", "9x", "zcv..x"],
    "package": ["zcvsd_a", "zcvsd_nocomp", "zcvsdmod_plain", "zcvsd_missing", "zcvsd_a.", ""],
    "src": ["", "nosuch#frag"],
    "file": ["", "sub/component.xml", "component.xml"],
}
UNSPEC_VALUES = {("datatype", "zcv.dts.nosuch"), ("key", "9k"), ("key", "")}
ATTRS_OF = {
    "schema": ["keytype", "datatype", "handler", "prefix", "valuetype"],
    "component": ["prefix"],
    "sectiontype": ["name", "keytype", "datatype", "extends", "implements", "prefix", "valuetype"],
    "abstracttype": ["name"],
    "key": ["name", "attribute", "datatype", "required", "handler", "default"],
    "multikey": ["name", "attribute", "datatype", "required", "handler", "default"],
    "section": ["name", "attribute", "type", "required", "handler"],
    "multisection": ["name", "attribute", "type", "required", "handler"],
    "default": ["key"],
    "import": ["package", "src", "file"],
}
NEW_NODES = [
    lambda: N("key", {"name": "fresh-key"}),
    lambda: N("multikey", {"name": "fresh-mk"}, [N("default", text="dv")]),
    lambda: N("key", {"name": "+", "attribute": "fresh_w"}, [N("default", {"key": "a"}, text="1"),
                                                          N("default", {"key": "A"}, text="2")]),
    lambda: N("default", text="dv"),
    lambda: N("default", {"key": "dk"}, text="dv"),
    lambda: N("description", text="words"),
    lambda: N("example", text="words"),
    lambda: N("metadefault", text="words"),
    lambda: N("sectiontype", {"name": "fresh-type"}),
    lambda: N("abstracttype", {"name": "fresh-abs"}),
    lambda: N("import", {"package": "zcvsd_e"}),
    lambda: N("bogus"),
    lambda: N("schema"),
    lambda: N("component"),
]


def _type_by_name(tree, name):
    for _, n in walk(tree):
        if n["tag"] == "sectiontype" and (n["a"].get("name") or "").lower() == name.lower():
            return n
    return None


def _siblings_tokens(tree, path, attr):
    """Values of `attr` among the siblings and - inside a derived section type - among the inherited items
    (for `attribute` also the attribute names implied by their names); for type references all type names."""
    out = []

    def add(v):
        if v and v not in out:
            out.append(v)

    def collect(kids):
        for k in kids:
            add(k["a"].get(attr))
            if attr == "attribute" and k["a"].get("name") and k["a"]["name"] not in ("*", "+"):
                add(k["a"]["name"].lower().replace("-", "_"))
            if attr == "name":
                add(k["a"].get("attribute"))
    if path:
        parent = node_at(tree, path[:-1])
        collect(parent["kids"])
        seen = 0
        while parent is not None and parent["tag"] == "sectiontype" and parent["a"].get("extends") and seen < 4:
            parent = _type_by_name(tree, parent["a"]["extends"])
            seen += 1
            if parent is not None:
                collect(parent["kids"])
    if attr in ("type", "extends", "implements"):
        for _, n in walk(tree):
            if n["tag"] in TYPE_TAGS:
                add(n["a"].get("name"))
    return out


BENIGN = {
    "name": ["fresh-name", "Zed", "k9", "+"],
    "attribute": ["fresh_attr", "other_attr"],
    "type": [],
    "extends": [],
    "implements": [],
    "required": ["yes", "no"],
    "datatype": ["integer", "Integer", "zcv.dts.boomkey", "zcv.dts.wrap", "null"],
    "keytype": ["identifier", "Basic-Key", "basic-key"],
    "valuetype": ["string"],
    "handler": ["h1", "H-2"],
    "default": ["v", "7"],
    "key": ["dk9", "D1", "d1"],
    "prefix": ["zcv.dts", ".dts", "zcv"],
    "package": [],
    "src": [],
    "file": [],
}


def edits(tree, rng=None, dense=True, pool=None):
    """Yield (label, edited tree).  Generic operators applied at every position:
    set / delete an attribute, duplicate / delete / move / retag a node, insert a
    new element of every kind, insert character data."""
    nodes = list(walk(tree))
    for path, n in nodes:
        for attr in ATTRS_OF.get(n["tag"], []):
            vals = list((pool or POOL).get(attr, []))
            for v in _siblings_tokens(tree, path, attr):
                if v not in vals:
                    vals.append(v)
                cv = v.upper() if v.upper() != v else v.lower()
                if attr in ("name", "type", "extends", "implements") and cv not in vals:
                    vals.append(cv)
            pooled = set((pool or POOL).get(attr, []))
            for v in vals:
                if n["a"].get(attr) == v:
                    continue
                t = copy.deepcopy(tree)
                node_at(t, path)["a"][attr] = v
                # "set!" = the value is taken from the document itself (a sibling's or an inherited item's name /
                # attribute, a type name): the edits most likely to probe a uniqueness or reference rule
                yield ("%s %s/%s@%s=%r" % ("set" if v in pooled else "set!", "/".join(map(str, path)), n["tag"],
                                           attr, v)), t
            if attr in n["a"]:
                t = copy.deepcopy(tree)
                del node_at(t, path)["a"][attr]
                yield ("del %s/%s@%s" % ("/".join(map(str, path)), n["tag"], attr)), t
        if path:
            t = copy.deepcopy(tree)
            par = node_at(t, path[:-1])
            par["kids"].insert(path[-1] + 1, copy.deepcopy(n))
            yield ("dup %s/%s" % ("/".join(map(str, path)), n["tag"])), t
            t = copy.deepcopy(tree)
            par = node_at(t, path[:-1])
            del par["kids"][path[-1]]
            yield ("delnode %s/%s" % ("/".join(map(str, path)), n["tag"])), t
            # move to the end / to the front of the same parent
            par0 = node_at(tree, path[:-1])
            if path[-1] != len(par0["kids"]) - 1:
                t = copy.deepcopy(tree)
                par = node_at(t, path[:-1])
                par["kids"].append(par["kids"].pop(path[-1]))
                yield ("toend %s/%s" % ("/".join(map(str, path)), n["tag"])), t
            if path[-1] != 0:
                t = copy.deepcopy(tree)
                par = node_at(t, path[:-1])
                par["kids"].insert(0, par["kids"].pop(path[-1]))
                yield ("tofront %s/%s" % ("/".join(map(str, path)), n["tag"])), t
            other = {"key": "multikey", "multikey": "key", "section": "multisection", "multisection": "section",
                     "sectiontype": "abstracttype"}.get(n["tag"])
            if other:
                t = copy.deepcopy(tree)
                node_at(t, path)["tag"] = other
                yield ("retag %s/%s->%s" % ("/".join(map(str, path)), n["tag"], other)), t
        for mk in NEW_NODES:
            new = mk()
            if n["tag"] in CDATA_TAGS and new["tag"] not in ("key", "description", "bogus"):
                continue
            t = copy.deepcopy(tree)
            node_at(t, path)["kids"].append(new)
            yield ("ins %s/%s<-%s" % ("/".join(map(str, path)), n["tag"], new["tag"] + str(sorted(new["a"])))), t
            if new["tag"] in ("description", "import", "abstracttype") and node_at(tree, path)["kids"]:
                t = copy.deepcopy(tree)
                node_at(t, path)["kids"].insert(0, new)
                yield ("ins0 %s/%s<-%s" % ("/".join(map(str, path)), n["tag"], new["tag"])), t
        if not n["text"]:
            t = copy.deepcopy(tree)
            node_at(t, path)["text"] = "stray"
            yield ("text %s/%s" % ("/".join(map(str, path)), n["tag"])), t
