"""Check bookkeeping: evidence files, replay files, VIOLATION / KNOWN-FINDING
lines, exit codes.

exit 0  property held on everything explored (known findings only)
exit 1  at least one VIOLATION line was printed
exit 2  machinery failure (TLC crash/timeout, rendering precondition, ...)
"""
import json
import os
import sys
import time
import traceback

VERIF = os.path.dirname(os.path.dirname(os.path.dirname(os.path.abspath(__file__))))
REPO = os.environ.get("ZCV_REPO", "/repo")
LEVEL = "model_checking"


class MachineryError(Exception):
    pass


def load_known():
    with open(os.path.join(VERIF, "known_findings.json")) as f:
        return json.load(f)


class Check:
    def __init__(self, pid, tier, seed):
        self.pid = pid
        self.tier = tier
        self.seed = seed
        self.t0 = time.time()
        self.states = 0
        self.transitions = 0
        self.traces = 0            # scenarios executed on /repo and compared
        self.evaluations = 0
        self.nontrivial = set()    # fingerprints of distinct non-trivial cases
        self.nontrivial_count = 0  # used when fingerprints would be too many
        self.samples = []
        self.rule = ""
        self.exhaustive = False
        self.assumptions = []
        self.extra = {}
        self.violations = 0
        self.known_hits = {}       # finding id -> count
        self.violation_classes = {}
        self.unspecified = 0
        self._known = [k for k in load_known().get("findings", [])
                       if k["property"] == pid]
        self._printed_known = set()
        self.max_violation_files = 25

    # -- accounting -------------------------------------------------------
    def add_tlc(self, run):
        self.states += run.distinct
        self.transitions += run.generated

    def sample(self, obj, limit=6):
        if len(self.samples) < limit:
            self.samples.append(obj)

    def note(self, key, value):
        self.extra[key] = value

    # -- verdicts ---------------------------------------------------------
    def match_known(self, detail):
        """detail is a dict describing the disagreement; a finding matches if
        its 'match' predicate (a dict of field -> value / list of values)
        agrees with detail['class'] fields."""
        cls = detail.get("class", {})
        for k in self._known:
            ok = True
            for fld, want in k["match"].items():
                got = cls.get(fld)
                if isinstance(want, list):
                    if got not in want:
                        ok = False
                else:
                    if got != want:
                        ok = False
            if ok:
                return k
        return None

    def disagree(self, detail):
        """Report one reproduced disagreement between /repo and the spec.
        Returns 'known' or 'violation'."""
        k = self.match_known(detail)
        if k is not None:
            fid = k["id"]
            self.known_hits[fid] = self.known_hits.get(fid, 0) + 1
            if fid not in self._printed_known:
                self._printed_known.add(fid)
                print("KNOWN-FINDING: property=%s %s (%s)" % (self.pid, k["what"], fid))
                sys.stdout.flush()
            return "known"
        self.violations += 1
        ck = json.dumps(detail.get("class", {}), sort_keys=True)
        first_of_class = ck not in self.violation_classes
        self.violation_classes[ck] = self.violation_classes.get(ck, 0) + 1
        if self.violations <= self.max_violation_files or (first_of_class and len(self.violation_classes) < 40):
            d = os.path.join(os.environ.get("ZCV_REPLAY_DIR", os.path.join(VERIF, "replays")), self.pid)
            os.makedirs(d, exist_ok=True)
            path = os.path.join(d, "%s-%d-%03d.json" % (self.tier, self.seed, self.violations))
            with open(path, "w") as f:
                json.dump(detail, f, indent=1, sort_keys=True, default=repr)
            print("VIOLATION property=%s replay=%s" % (self.pid, path))
            brief = detail.get("clause") or detail.get("why") or ""
            if brief:
                print("  clause: %s" % brief)
            sys.stdout.flush()
        return "violation"

    # -- evidence ---------------------------------------------------------
    def finish(self):
        wall = time.time() - self.t0
        nd = self.nontrivial_count + len(self.nontrivial)
        cov = {
            "states": int(self.states),
            "transitions": int(self.transitions),
            "traces_validated_against_impl": int(self.traces),
            "evaluations": int(self.evaluations),
            "distinct_nontrivial": int(nd),
            "rule": self.rule,
            "samples": self.samples,
            "exhaustive": bool(self.exhaustive),
            "known_finding_hits": self.known_hits,
            "unspecified_scenarios": self.unspecified,
        }
        if self.violation_classes:
            cov["violation_classes"] = self.violation_classes
        cov.update(self.extra)
        ev = {
            "property_id": self.pid,
            "tier": self.tier,
            "seed": int(self.seed),
            "level": LEVEL,
            "coverage": cov,
            "assumptions": self.assumptions,
            "wall_s": round(wall, 2),
            "violations": int(self.violations),
        }
        evdir = os.environ.get("ZCV_EVIDENCE_DIR", os.path.join(VERIF, "evidence"))
        os.makedirs(evdir, exist_ok=True)
        path = os.path.join(evdir, self.pid + ".json")
        tmp = path + ".tmp"
        with open(tmp, "w") as f:
            json.dump(ev, f, indent=1, sort_keys=True, default=repr)
            f.write("\n")
        os.replace(tmp, path)
        print("%s %s: states=%d transitions=%d impl_traces=%d evaluations=%d nontrivial=%d "
              "violations=%d known=%s wall=%.1fs" % (
                  self.pid, self.tier, self.states, self.transitions, self.traces,
                  self.evaluations, nd, self.violations, self.known_hits, wall))
        return 1 if self.violations else 0


def main_wrapper(fn, pid, tier, seed):
    chk = Check(pid, tier, seed)
    try:
        fn(chk)
    except MachineryError as e:
        print("MACHINERY-FAILURE %s: %s" % (pid, e))
        return 2
    except Exception:
        traceback.print_exc()
        print("MACHINERY-FAILURE %s: unexpected exception in the harness" % pid)
        return 2
    if chk.states < 1 or chk.transitions < 1:
        print("MACHINERY-FAILURE %s: TLC explored nothing" % pid)
        return 2
    return chk.finish()
