"""Random configuration texts for a schema record: mostly conforming trees,
optionally damaged by line-level faults."""
from . import refconv, schemas


class Line(str):
    """A line of generated text that remembers what it is: info = dict with
    role ('key' | 'open' | 'close' | 'empty' | 'blank'), cont (name of the
    containing type, '' = top level), child (the declared item), type."""
    info = None

    def __new__(cls, text, **info):
        o = str.__new__(cls, text)
        o.info = info
        return o

    def indented(self, ind):
        return Line(ind + self, **self.info)


class Gen:
    def __init__(self, rng, rec, maxdepth=3, slash_names=False):
        self.rng = rng
        self.rec = rec
        self.maxdepth = maxdepth
        self.n = 0
        # some section names are not of basic-key shape: letters outside ASCII, a '/' at the end (spelled '<t n/ >'
        # and '<t n//>'); off by default because override paths can only address basic-key shaped names
        self.slash_names = slash_names

    def fresh(self, prefix="n"):
        self.n += 1
        if prefix == "n" and self.slash_names and self.rng.random() < 0.07:
            # section names are free text: letters outside ASCII have two cases as well
            prefix = self.rng.choice(["n\u00fc", "\u00e4n", "n\u00e9"])
        if prefix.startswith("n") and self.slash_names and self.rng.random() < 0.08:
            return "%s%d/" % (prefix, self.n)
        return "%s%d" % (prefix, self.n)

    def concrete_for(self, stype):
        t = self.rec["types"][stype]
        if t["abstract"]:
            impl = sorted(t["impl"])
            return self.rng.choice(impl) if impl else None
        return stype

    def key_spelling(self, kt, name):
        if kt != "identifier" and self.rng.random() < 0.25:
            return name.upper()
        return name

    def wild_key(self, kt):
        if kt == "ipaddr-or-hostname":
            return self.rng.choice(["host-b", "HOST-C", "10.0.0.1", "h.example"])
        return self.rng.choice(["x1", "X2", "y3", "zed"]) if kt != "identifier" else self.rng.choice(["x1", "X2", "y_3"])

    def body(self, T, depth, cont=""):
        rng = self.rng
        L = Line
        blocks = []
        wild_used = set()
        sect_names = []
        for c in T["children"]:
            if c["kind"] in ("key", "multikey"):
                good = refconv.good_values(c["dt"])
                if c["name"] == "+":
                    n = rng.choice([0, 1, 2]) if not c["req"] else rng.choice([1, 2])
                    used = set()
                    for _ in range(n):
                        k = self.wild_key(T["keytype"])
                        nk = refconv.keyconv(T["keytype"], k)
                        if c["kind"] == "key" and nk in used:
                            continue
                        used.add(nk)
                        wild_used.add(nk)
                        blocks.append([L(("%s %s" % (k, rng.choice(good))).rstrip(), role="key", cont=cont, child=c)])
                elif c["kind"] == "key":
                    if c["req"] or rng.random() < 0.6:
                        blocks.append([L(("%s %s" % (self.key_spelling(T["keytype"], c["name"]), rng.choice(good))).rstrip(),
                                         role="key", cont=cont, child=c)])
                else:
                    n = rng.choice([0, 1, 2, 3])
                    if c["req"] and not c["dflt"]:
                        n = max(n, 1)
                    for _ in range(n):
                        blocks.append([L(("%s %s" % (self.key_spelling(T["keytype"], c["name"]), rng.choice(good))).rstrip(),
                                         role="key", cont=cont, child=c)])
            else:
                if depth >= self.maxdepth and not c["req"]:
                    continue
                if depth >= self.maxdepth + 8:
                    continue      # a required section of a type that (transitively) requires itself: no finite text conforms

                n = (1 if (c["req"] or rng.random() < 0.6) else 0) if c["kind"] == "section" else rng.choice([0, 1, 2])
                if c["req"]:
                    n = max(n, 1)
                for _ in range(n):
                    tn = self.concrete_for(c["stype"])
                    if tn is None:
                        continue
                    if c["name"] == "*":
                        name = self.fresh() if rng.random() < 0.6 else ""
                    elif c["name"] == "+":
                        name = self.fresh()
                    else:
                        name = c["name"]
                    if name:
                        sect_names.append(name)
                    tnw = tn.upper() if rng.random() < 0.2 else tn
                    inner = self.body(self.rec["types"][tn], depth + 1, cont=tn)
                    head = "<%s%s%s>" % (tnw, (" " + name) if name else "", " " if name.endswith("/") else "")
                    if not inner and rng.random() < 0.5:
                        blocks.append([L(head[:-1] + "/>", role="empty", cont=cont, child=c, type=tn, name=name)])
                    else:
                        blocks.append([L(head, role="open", cont=cont, child=c, type=tn, name=name)]
                                      + [l.indented("  ") for l in inner]
                                      + [L("</%s>" % tn, role="close", cont=cont, child=c, type=tn, name=name)])
        # a wildcard key spelled like the name of a section of the same container: names of sections and keys are
        # two namespaces (only declared names are shared), wherever the key line stands
        wild = [c for c in T["children"] if c["kind"] in ("key", "multikey") and c["name"] == "+"]
        declared = {c["name"] for c in T["children"]}
        if wild and sect_names and rng.random() < 0.3:
            nm = rng.choice(sect_names)
            nk = refconv.keyconv(T["keytype"], nm)
            if nk is not None and nk not in wild_used and nk not in declared and nm not in declared:
                blocks.append([L(("%s %s" % (nm, rng.choice(refconv.good_values(wild[0]["dt"])))).rstrip(),
                                 role="key", cont=cont, child=wild[0])])
        rng.shuffle(blocks)
        out = []
        for b in blocks:
            out += b
            if rng.random() < 0.1:
                out.append(L(rng.choice(["", "# note"]), role="blank", cont=cont))
        return out

    def text(self):
        return self.body(self.rec["top"], 1)


def damage(rng, lines, vocab, n=1):
    """Apply n random line-level faults."""
    lines = list(lines)
    for _ in range(n):
        op = rng.choice(["del", "dup", "ins", "swap", "rep"])
        if not lines:
            op = "ins"
        i = rng.randrange(len(lines)) if lines else 0
        if op == "del":
            del lines[i]
        elif op == "dup":
            lines.insert(i, lines[i])
        elif op == "ins":
            lines.insert(rng.randint(0, len(lines)), rng.choice(vocab))
        elif op == "swap" and len(lines) > 1:
            j = rng.randrange(len(lines))
            lines[i], lines[j] = lines[j], lines[i]
        elif op == "rep":
            lines[i] = rng.choice(vocab)
    return lines
