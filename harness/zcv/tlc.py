"""Run TLC on a specification of /verif/spec and collect what it printed.

Every run gets a private scratch directory (under $ZCV_SCRATCH, default
/var/tmp) that is removed afterwards.  The specification modules are found
through -DTLA-Library=/verif/spec, so the scratch directory only holds the
generated MC module, its .cfg and TLC's metadir.

TLC output protocol used by all specifications here: a specification prints
machine-readable values with PrintT(ToJson(v)); TLC renders that as one line
holding a TLA+ string literal whose content is JSON.  Such lines are decoded
twice (string literal, then JSON) and handed to the caller.
"""
import json
import os
import re
import shutil
import subprocess
import tempfile
import time

VERIF = os.path.dirname(os.path.dirname(os.path.dirname(os.path.abspath(__file__))))
SPEC_DIR = os.path.join(VERIF, "spec")
JAR = "/opt/veriftools/tla/tla2tools.jar"
DEPS = "/opt/veriftools/tla/CommunityModules-deps.jar"


class TLCError(Exception):
    """Machinery failure (exit 2): TLC crashed, timed out or reported an
    error that is not an invariant/property verdict the caller asked for."""


class TLCRun:
    def __init__(self):
        self.generated = 0
        self.distinct = 0
        self.depth = 0
        self.values = []
        self.violation = None     # name of violated invariant / property, if any
        self.error_text = ""
        self.wall = 0.0
        self.coverage = {}
        self.raw_tail = []


def scratch_root():
    root = os.environ.get("ZCV_SCRATCH", "/var/tmp")
    os.makedirs(root, exist_ok=True)
    return root


def mkscratch(prefix="zcv-"):
    return tempfile.mkdtemp(prefix=prefix, dir=scratch_root())


_states_rx = re.compile(r"^(\d+) states generated, (\d+) distinct states found")
_depth_rx = re.compile(r"^The depth of the complete state graph search is (\d+)")
_inv_rx = re.compile(r"^Error: Invariant (\S+) is violated")
_prop_rx = re.compile(r"^Error: (Action|Temporal) propert(y|ies) (\S*)")
_cov_rx = re.compile(r"^<(\w+) line (\d+), col (\d+) to line (\d+), col (\d+) of module (\w+)>: (\d+):(\d+)")


def tla_str(s):
    """Python str -> TLA+ string literal."""
    out = ['"']
    for ch in s:
        if ch == '"':
            out.append('\\"')
        elif ch == '\\':
            out.append('\\\\')
        elif ch == '\n':
            out.append('\\n')
        elif ch == '\t':
            out.append('\\t')
        else:
            out.append(ch)
    out.append('"')
    return ''.join(out)


def tla_value(v):
    """Python value -> TLA+ expression (records for dicts with identifier
    keys, functions otherwise, tuples for lists, sets for sets)."""
    if v is True:
        return "TRUE"
    if v is False:
        return "FALSE"
    if isinstance(v, int):
        return str(v)
    if isinstance(v, str):
        return tla_str(v)
    if isinstance(v, (list, tuple)):
        return "<<" + ", ".join(tla_value(x) for x in v) + ">>"
    if isinstance(v, (set, frozenset)):
        return "{" + ", ".join(tla_value(x) for x in sorted(v, key=repr)) + "}"
    if isinstance(v, dict):
        if not v:
            return "<<>>"
        if all(isinstance(k, str) and re.fullmatch(r"[A-Za-z][A-Za-z0-9_]*", k)
               and k not in _TLA_RESERVED for k in v):
            return "[" + ", ".join("%s |-> %s" % (k, tla_value(x)) for k, x in v.items()) + "]"
        return "(" + " @@ ".join("(%s :> %s)" % (tla_value(k), tla_value(x)) for k, x in v.items()) + ")"
    raise TypeError("cannot render %r as TLA+" % (v,))


_TLA_RESERVED = {
    "ASSUME", "ELSE", "LOCAL", "UNION", "ASSUMPTION", "ENABLED", "MODULE",
    "VARIABLE", "AXIOM", "EXCEPT", "OTHER", "VARIABLES", "CASE", "EXTENDS",
    "SF_", "WF_", "CHOOSE", "IF", "SUBSET", "WITH", "CONSTANT", "IN", "THEN",
    "CONSTANTS", "INSTANCE", "THEOREM", "DOMAIN", "LET", "UNCHANGED",
    "TRUE", "FALSE", "BOOLEAN", "STRING", "LAMBDA", "RECURSIVE",
}


def run(main_module, cfg, *, extra_files=None, workers=16, timeout=900,
        on_value=None, on_raw=None, env=None, simulate=None, depth=None, seed=None,
        coverage=False, heap="12g", keep=False, dfs=False, extra_args=()):
    """Run TLC.

    main_module : text of the MC module (its name must be MC) or the name of a
                  module in /verif/spec to run directly.
    cfg         : text of the .cfg file.
    extra_files : {filename: text or bytes} written next to the MC module.
    on_value    : callback for every decoded PrintT(ToJson(..)) value; when
                  None the values are collected in TLCRun.values.
    """
    r = TLCRun()
    d = mkscratch("zcv-tlc-")
    try:
        if "\n" not in main_module:
            for sub in ("mc", ""):
                cand = os.path.join(SPEC_DIR, sub, main_module + ".tla")
                if os.path.exists(cand):
                    with open(cand) as f:
                        main_module = f.read()
                    break
            else:
                raise TLCError("no such module: " + main_module)
        m = re.search(r"^-+ *MODULE +(\w+) *-+", main_module, re.M)
        if not m:
            raise TLCError("module text has no header")
        name = m.group(1)
        with open(os.path.join(d, name + ".tla"), "w") as f:
            f.write(main_module)
        with open(os.path.join(d, name + ".cfg"), "w") as f:
            f.write(cfg)
        for fn, content in (extra_files or {}).items():
            mode = "wb" if isinstance(content, bytes) else "w"
            with open(os.path.join(d, fn), mode) as f:
                f.write(content)
        jopts = ["-XX:+UseParallelGC", "-Xmx" + heap, "-Xss64m",
                 "-DTLA-Library=" + SPEC_DIR + os.pathsep + os.path.join(SPEC_DIR, "mc")]
        if dfs:
            jopts.append("-Dtlc2.tool.queue.IStateQueue=StateDeque")
        cmd = ["java"] + jopts + ["-cp", JAR + ":" + DEPS, "tlc2.TLC",
                                  "-workers", str(workers),
                                  "-metadir", os.path.join(d, "meta"),
                                  "-noGenerateSpecTE", "-config", name + ".cfg"]
        if coverage:
            cmd += ["-coverage", "1"]
        if simulate:
            cmd += ["-simulate", simulate]
        if depth is not None:
            cmd += ["-depth", str(depth)]
        if seed is not None:
            cmd += ["-seed", str(seed)]
        cmd += list(extra_args)
        cmd += [name + ".tla"]
        penv = dict(os.environ)
        penv.pop("JAVA_TOOL_OPTIONS", None)
        if env:
            penv.update(env)
        t0 = time.time()
        p = subprocess.Popen(cmd, cwd=d, env=penv, stdout=subprocess.PIPE,
                             stderr=subprocess.STDOUT, text=True, bufsize=1 << 20)
        tail = []
        err_lines = []
        in_err = False
        deadline = t0 + timeout
        try:
            for line in p.stdout:
                if time.time() > deadline:
                    p.kill()
                    raise TLCError("TLC timed out after %ss" % timeout)
                line = line.rstrip("\n")
                if on_raw is not None and line.startswith('"{') and line.endswith('}"'):
                    on_raw(line)
                    continue
                if line.startswith('"') and line.endswith('"'):
                    try:
                        val = json.loads(json.loads(line))
                    except ValueError:
                        val = None
                    if val is not None:
                        if on_value is not None:
                            on_value(val)
                        else:
                            r.values.append(val)
                        continue
                tail.append(line)
                if len(tail) > 400:
                    del tail[:200]
                m = _states_rx.match(line)
                if m:
                    r.generated, r.distinct = int(m.group(1)), int(m.group(2))
                    continue
                m = _depth_rx.match(line)
                if m:
                    r.depth = int(m.group(1))
                    continue
                m = _inv_rx.match(line)
                if m:
                    r.violation = m.group(1)
                    in_err = True
                m = _prop_rx.match(line)
                if m:
                    r.violation = m.group(3) or "property"
                    in_err = True
                if line.startswith("Error:"):
                    in_err = True
                if in_err:
                    err_lines.append(line)
                if coverage:
                    m = _cov_rx.match(line)
                    if m:
                        r.coverage[m.group(1)] = (int(m.group(7)), int(m.group(8)))
            p.wait()
        finally:
            if p.poll() is None:
                p.kill()
        r.wall = time.time() - t0
        r.raw_tail = tail[-60:]
        r.error_text = "\n".join(err_lines[:200])
        if p.returncode != 0 and r.violation is None:
            raise TLCError("TLC exit %s\n%s\n...\n%s" % (p.returncode, "\n".join(err_lines[:25]), "\n".join(tail[-40:])))
        return r
    finally:
        if not keep:
            shutil.rmtree(d, ignore_errors=True)
