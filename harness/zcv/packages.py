"""Generated component packages for %import / <import package=...> checks."""
import os
import sys

from . import schemas, tlc
from .schemas import K, MK, TYPE

PKG_DOCS = {
    # name -> list of type documents of the component
    "zcvpkg_a": [TYPE("pa1", [K("k1")], implements="abs1"),
                 TYPE("pa2", [K("k2", "integer")], extends="pa1")],
    "zcvpkg_b": [TYPE("pb1", [MK("m1")], implements="abs1")],
    "zcvpkg_c": [TYPE("pc1", [K("k1")], implements="abs2")],
    # extends a type of the importing schema under another key type (wildcard defaults are re-keyed)
    "zcvpkg_d": [TYPE("pd1", [K("own")], extends="wbase", keytype="identifier", implements="abs1")],
    # two packages that define the same type name, only one of them as an implementer of abs1
    "zcvpkg_x": [TYPE("dupt", [K("k1")], implements="abs1")],
    "zcvpkg_y": [TYPE("dupt", [K("k1")])],
    # implements an abstract type that the importing schema took over from a library schema (<import src>)
    "zcvpkg_l2": [TYPE("pl2", [K("k1")], implements="labs")],
    # two components that import each other (whichever is asked for first reads the other on the way and is
    # not read again when that one asks for it in turn)
    "zcvpkg_p": [schemas.IMPORT("zcvpkg_q"), TYPE("pp1", [K("k1")], implements="abs1")],
    "zcvpkg_q": [schemas.IMPORT("zcvpkg_p"), TYPE("pq1", [MK("m1")], implements="abs1")],
}
# library schemas named by <import src="package:<pkg>:<file>"/>: (package, file) -> type documents
LIB_DOCS = {
    ("zcvpkg_lib", "lib.xml"): [schemas.ABS("labs"),
                                TYPE("lbox", [schemas.MSEC("labs", "*", "items"), schemas.SEC("labs", "fixed")]),
                                TYPE("l1", [K("k1")], implements="labs")],
}
# types the importing schema must define for a package to make sense (used to expand the component)
CONTEXT = [schemas.ABS("abs1"), schemas.ABS("abs2"), schemas.ABS("labs"),
           TYPE("wbase", [K("k0"), K("+", attribute="w", defaults=[("Alpha", "av"), ("beta", "bv")])])]
NOT_OK = ["zcvpkg_nocomp", "zcvmod_plain", "zcvpkg_missing", "zcvpkg_a."]


def component_xml(types):
    doc = {"types": types, "children": []}
    return schemas.to_xml(doc, top="component")


def build(root):
    """Write the packages below root and put root on sys.path."""
    for name, types in PKG_DOCS.items():
        d = os.path.join(root, name)
        os.makedirs(d, exist_ok=True)
        open(os.path.join(d, "__init__.py"), "w").close()
        with open(os.path.join(d, "component.xml"), "w") as f:
            f.write(component_xml(types))
    for (name, fn), types in LIB_DOCS.items():
        d = os.path.join(root, name)
        os.makedirs(d, exist_ok=True)
        open(os.path.join(d, "__init__.py"), "w").close()
        with open(os.path.join(d, fn), "w") as f:
            f.write(schemas.to_xml({"types": types, "children": []}))
    d = os.path.join(root, "zcvpkg_nocomp")
    os.makedirs(d, exist_ok=True)
    open(os.path.join(d, "__init__.py"), "w").close()
    with open(os.path.join(root, "zcvmod_plain.py"), "w") as f:
        f.write("# a module, not a package\n")
    if root not in sys.path:
        sys.path.insert(0, root)
    import importlib
    importlib.invalidate_caches()


def abstract_packages():
    """MCPackages: what %import <name> contributes, as the specification sees it: the components it imports in
    turn (read first), the types it defines itself, the implementers it adds."""
    out = {}
    for name, docs in PKG_DOCS.items():
        types = [t for t in docs if "import" not in t]
        # expand relative to a schema that declares the abstract types the component refers to
        doc = schemas.SCHEMA(types=list(CONTEXT) + types)
        rec = schemas.for_tla(schemas.expand(doc))
        tys = {n: t for n, t in rec["types"].items() if n in {t["name"] for t in types}}
        impl = {}
        for t in types:
            if t.get("implements"):
                impl.setdefault(t["implements"], set()).add(t["name"])
        out[name] = {"ok": True, "types": tys, "impl": impl or {"~none~": set()},
                     "imports": [t["import"] for t in docs if "import" in t]}
    for name in NOT_OK:
        out[name] = {"ok": False}
    return out
