"""Encoding of text for TLC.

TLC keeps strings as atomic values and its state serialisation only survives
ASCII.  A character is therefore handed to the specifications as a *token*:
the character itself when it is printable ASCII other than '~', else
'~u<hex>;'.  Text is a sequence of such tokens (enc_chars) or, where the
specification only compares and concatenates, their concatenation (enc).  The
encoding is injective on strings because '~' only ever introduces an escape.
"""


def enc_char(c):
    o = ord(c)
    if (32 <= o < 127 and c != "~") or c == "\t":
        return c
    return "~u%x;" % o


def enc_chars(s):
    return [enc_char(c) for c in s]


def enc(s):
    return "".join(enc_char(c) for c in s)


def dec(s):
    """Inverse of enc()."""
    out = []
    i = 0
    while i < len(s):
        if s[i] == "~" and s[i + 1:i + 2] == "u" and ";" in s[i:]:
            j = s.index(";", i)
            out.append(chr(int(s[i + 2:j], 16)))
            i = j + 1
        else:
            out.append(s[i])
            i += 1
    return "".join(out)


def ext_tables(chars):
    """Environment tables for the non-ASCII / control characters that occur:
    what str.lower() and str.isspace() say about each of them (asked of Python
    directly).  Characters whose lower-casing is not a single character are
    reported so that generators can avoid them."""
    lower = {}
    space = set()
    for c in sorted(set(chars)):
        t = enc_char(c)
        if t == c:
            continue
        lc = c.lower()
        if len(lc) != 1:
            raise ValueError("lower() of %r is not one character" % c)
        if lc != c:
            lower[t] = enc_char(lc)
        if c.isspace():
            space.add(t)
    return lower, space
