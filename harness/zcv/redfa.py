"""Live regular expression -> DFA over a finite set of representative
characters, using Python's own regex parser (re._parser).  Supported opcodes:
LITERAL, NOT_LITERAL, IN (LITERAL / RANGE / CATEGORY / NEGATE), ANY,
MAX_REPEAT / MIN_REPEAT, BRANCH, SUBPATTERN, AT (beginning / end; only at the
ends of an alternative).  Anything else raises Unsupported - the product
check is then skipped for that pattern (reported, never a verdict).

The DFA recognises the *full-match* language of the pattern restricted to
strings over the representative characters.
"""
import re

try:
    import re._parser as sre_parse
    import re._constants as sre_c
except ImportError:  # pragma: no cover
    import sre_parse
    import sre_constants as sre_c


class Unsupported(Exception):
    pass


def _category(cat, ch):
    name = str(cat)
    if name.endswith("CATEGORY_DIGIT"):
        return ch.isdigit()
    if name.endswith("CATEGORY_NOT_DIGIT"):
        return not ch.isdigit()
    if name.endswith("CATEGORY_SPACE"):
        return ch.isspace()
    if name.endswith("CATEGORY_NOT_SPACE"):
        return not ch.isspace()
    if name.endswith("CATEGORY_WORD"):
        return ch.isalnum() or ch == "_"
    if name.endswith("CATEGORY_NOT_WORD"):
        return not (ch.isalnum() or ch == "_")
    raise Unsupported(name)


def _in_set(items, ch, ascii_only):
    neg = False
    hit = False
    for op, av in items:
        if op is sre_c.NEGATE:
            neg = True
        elif op is sre_c.LITERAL:
            hit = hit or ord(ch) == av
        elif op is sre_c.RANGE:
            hit = hit or av[0] <= ord(ch) <= av[1]
        elif op is sre_c.CATEGORY:
            c = _category(av, ch)
            if ascii_only and ord(ch) > 127:
                c = str(av).find("NOT_") >= 0
            hit = hit or c
        else:
            raise Unsupported(str(op))
    return hit != neg


class NFA:
    def __init__(self):
        self.eps = {}
        self.trans = {}      # state -> [(predicate, target)]
        self.n = 0

    def new(self):
        self.n += 1
        return self.n

    def add_eps(self, a, b):
        self.eps.setdefault(a, []).append(b)

    def add(self, a, pred, b):
        self.trans.setdefault(a, []).append((pred, b))


def _build(nfa, seq, start, ascii_only):
    cur = start
    for op, av in seq:
        if op is sre_c.LITERAL:
            nxt = nfa.new()
            nfa.add(cur, (lambda ch, c=av: ord(ch) == c), nxt)
            cur = nxt
        elif op is sre_c.NOT_LITERAL:
            nxt = nfa.new()
            nfa.add(cur, (lambda ch, c=av: ord(ch) != c), nxt)
            cur = nxt
        elif op is sre_c.ANY:
            nxt = nfa.new()
            nfa.add(cur, (lambda ch: ch != "\n"), nxt)
            cur = nxt
        elif op is sre_c.IN:
            nxt = nfa.new()
            nfa.add(cur, (lambda ch, items=av: _in_set(items, ch, ascii_only)), nxt)
            cur = nxt
        elif op in (sre_c.MAX_REPEAT, sre_c.MIN_REPEAT):
            lo, hi, sub = av
            for _ in range(lo):
                cur = _build(nfa, sub, cur, ascii_only)
            if hi is sre_c.MAXREPEAT:
                loop = nfa.new()
                nfa.add_eps(cur, loop)
                end = _build(nfa, sub, loop, ascii_only)
                nfa.add_eps(end, loop)
                cur = loop
            else:
                ends = [cur]
                for _ in range(hi - lo):
                    cur = _build(nfa, sub, cur, ascii_only)
                    ends.append(cur)
                out = nfa.new()
                for e in ends:
                    nfa.add_eps(e, out)
                cur = out
        elif op is sre_c.BRANCH:
            _, alts = av
            out = nfa.new()
            for alt in alts:
                s = nfa.new()
                nfa.add_eps(cur, s)
                e = _build(nfa, alt, s, ascii_only)
                nfa.add_eps(e, out)
            cur = out
        elif op is sre_c.SUBPATTERN:
            sub = av[-1]
            cur = _build(nfa, sub, cur, ascii_only)
        elif op is sre_c.AT:
            # ^ and $ are accepted only where they cannot fail for a full match
            name = str(av)
            if not (name.endswith("AT_BEGINNING") or name.endswith("AT_END") or name.endswith("AT_END_STRING")
                    or name.endswith("AT_BEGINNING_STRING")):
                raise Unsupported(name)
            marker = nfa.new()
            nfa.add_eps(cur, marker)
            nfa.at = getattr(nfa, "at", []) + [(name, marker)]
            cur = marker
        else:
            raise Unsupported(str(op))
    return cur


def dfa(pattern, alphabet, flags=0):
    """-> (delta: {state: {char: state}}, accepting set, initial state)."""
    if isinstance(pattern, re.Pattern):
        flags |= pattern.flags
        pattern = pattern.pattern
    ascii_only = bool(flags & re.ASCII)
    tree = sre_parse.parse(pattern, flags)
    nfa = NFA()
    start = nfa.new()
    end = _build(nfa, list(tree), start, ascii_only)

    def closure(states):
        st = set(states)
        todo = list(states)
        while todo:
            q = todo.pop()
            for t in nfa.eps.get(q, []):
                if t not in st:
                    st.add(t)
                    todo.append(t)
        return frozenset(st)
    # '^' and '$' are treated as empty; selfcheck() compares the result with re.fullmatch on all short
    # strings, so a pattern where that is wrong is reported as Unsupported rather than mis-modelled
    init = closure([start])
    states = {init: 0}
    order = [init]
    delta = {}
    i = 0
    while i < len(order):
        S = order[i]
        i += 1
        delta[states[S]] = {}
        for ch in alphabet:
            tg = set()
            for q in S:
                for pred, t in nfa.trans.get(q, []):
                    if pred(ch):
                        tg.add(t)
            T = closure(tg)
            if T not in states:
                states[T] = len(order)
                order.append(T)
            delta[states[S]][ch] = states[T]
    acc = {states[S] for S in order if end in S}
    return delta, acc, 0


def accepts(d, s):
    delta, acc, q = d
    for ch in s:
        q = delta[q][ch]
    return q in acc


def selfcheck(pattern, d, alphabet, maxlen=4, flags=0):
    import itertools
    rx = pattern if isinstance(pattern, re.Pattern) else re.compile(pattern, flags)
    for n in range(maxlen + 1):
        for t in itertools.product(alphabet, repeat=n):
            s = "".join(t)
            if bool(rx.fullmatch(s)) != accepts(d, s):
                raise Unsupported("DFA construction disagrees with re.fullmatch on %r" % s)
