"""Reference conversions used to build the environment tables of ZLoad
scenarios (KeyTab / ConvTab).  They are written from the documentation of the
standard datatypes, independently of ZConfig.datatypes (which C09 checks
against ZDatatypes.tla); the loader checks only need *some* fixed meaning for
each (datatype, text) pair of the vocabulary, stated here by hand.

A converted value is represented by the repr() of the Python value the real
datatype is expected to return (a string, so that TLC never has to hold a
number larger than 32 bits).
"""
import re

_basic_key = re.compile(r"[a-zA-Z][-._a-zA-Z0-9]*\Z")
_identifier = re.compile(r"[_a-zA-Z][_a-zA-Z0-9]*\Z")
_ipv4 = re.compile(r"(\d{1,3})\.(\d{1,3})\.(\d{1,3})\.(\d{1,3})\Z")
_hostname = re.compile(r"[A-Za-z_][-A-Za-z0-9_.]*[-A-Za-z0-9_]\Z")


def keyconv(kt, tok):
    """-> normalised key (str) or None when the key type refuses tok."""
    if kt == "~lower~":
        return tok.lower()
    if kt == "basic-key":
        return tok.lower() if _basic_key.match(tok) else None
    if kt == "identifier":
        return tok if _identifier.match(tok) else None
    if kt == "ipaddr-or-hostname":
        m = _ipv4.match(tok)
        if m and all(int(g) <= 255 and (len(g) < 3 or g[0] in "012") for g in m.groups()):
            return tok.lower()
        if _hostname.match(tok):
            return tok.lower()
        return None          # (IPv6 keys are not part of any vocabulary)
    raise KeyError(kt)


# (datatype, text) -> repr of the expected value, or None for ValueError.
# Hand-stated; the vocabulary generators only use texts listed here.
VALUES = {
    "string": [("v1", "'v1'"), ("two words", "'two words'"), ("", "''"), ("V2", "'V2'")],
    "null": [("v1", "'v1'"), ("", "''")],
    "integer": [("12", "12"), ("-3", "-3"), ("zz", None), ("", None), ("1.5", None)],
    "boolean": [("on", "True"), ("No", "False"), ("maybe", None), ("", None)],
    "float": [("1.5", "1.5"), ("2", "2.0"), ("x", None)],
    "port-number": [("80", "80"), ("65535", "65535"), ("65536", None), ("-1", None), ("http", None)],
    "byte-size": [("2kb", "2048"), ("3", "3"), ("1MB", "1048576"), ("kb", None), ("2xb", None)],
    "time-interval": [("2m", "120"), ("5", "5"), ("1H", "3600"), ("m", None), ("2y", None)],
    "identifier": [("abc", "'abc'"), ("A_1", "'A_1'"), ("1a", None), ("a-b", None)],
    "basic-key": [("Abc", "'abc'"), ("a-b.c", "'a-b.c'"), ("1a", None), ("", None)],
    "string-list": [("a b", "['a', 'b']"), ("", "[]"), ("x", "['x']")],
    "inet-address": [("Host:80", "('host', 80)"), ("8080", "('', 8080)"), ("host:x", None)],
    "locale": [("C", "'C'"), ("no_SUCH.locale", None)],
    "boomkey": [("v1", "'v1'"), ("x", "'x'")],     # zcv.dts.boomkey: identity, raises KeyError on "BOOM"
    # zcv.dts.dcerr: identity; a text ending in '!' is refused with a DataConversionError of its own (a ValueError)
    "dcerr": [("v1", "'v1'"), ("x", "'x'"), ("bad!", None)],
}


def conv(dt, text):
    for t, r in VALUES[dt]:
        if t == text:
            return r
    raise KeyError((dt, text))


def good_values(dt):
    return [t for t, r in VALUES[dt] if r is not None]


def bad_values(dt):
    return [t for t, r in VALUES[dt] if r is None]


# -- reference conversions on arbitrary vocabulary texts -----------------------
_int = re.compile(r"[+-]?\d+\Z")
_float = re.compile(r"[+-]?(\d+\.?\d*|\.\d+)([eE][+-]?\d+)?\Z")


def _integer(text):
    return int(text) if _int.match(text) else None


def _suffixed(text, table):
    t = text.lower()
    n = len(next(iter(table)))
    for suf, mult in table.items():
        if t[-n:] == suf:
            v = _integer(t[:-n])
            return None if v is None else v * mult
    v = _integer(t)
    return v


def convert(dt, text):
    """Reference meaning of the standard datatypes on the (ASCII, stripped)
    value texts used by the vocabularies: repr of the value, or None."""
    if dt in ("string", "null", "boomkey"):
        return repr(text)
    if dt == "dcerr":
        return None if text.endswith("!") else repr(text)
    if dt == "integer":
        v = _integer(text)
        return None if v is None else repr(v)
    if dt == "float":
        return repr(float(text)) if _float.match(text) else None
    if dt == "boolean":
        t = text.lower()
        return "True" if t in ("yes", "true", "on") else "False" if t in ("no", "false", "off") else None
    if dt == "port-number":
        v = _integer(text)
        return repr(v) if v is not None and 0 <= v <= 65535 else None
    if dt == "byte-size":
        v = _suffixed(text, {"kb": 1024, "mb": 1024 ** 2, "gb": 1024 ** 3})
        return None if v is None else repr(v)
    if dt == "time-interval":
        v = _suffixed(text, {"s": 1, "m": 60, "h": 3600, "d": 86400})
        return None if v is None else repr(v)
    if dt == "identifier":
        return repr(text) if _identifier.match(text) else None
    if dt == "basic-key":
        return repr(text.lower()) if _basic_key.match(text) else None
    if dt == "string-list":
        return repr(text.split())
    if dt == "locale":
        return repr(text) if text in ("C", "POSIX") else None      # environment: the C locale exists, invented names do not
    if dt == "inet-address":
        if ":" in text:
            host, p = text.rsplit(":", 1)
            if ":" in host:
                return None if False else repr((text.lower(), None))
            port = None
            if p:
                port = convert("port-number", p)
                if port is None:
                    return None
                port = int(port)
            return repr((host.lower(), port))
        port = convert("port-number", text)
        if port is not None:
            return repr(("", int(port)))
        if len(text.split()) != 1:
            return None
        return repr((text.lower(), None))
    raise KeyError(dt)


def _selfcheck():
    for dt, rows in VALUES.items():
        for text, want in rows:
            got = convert(dt, text)
            assert got == want, (dt, text, got, want)


_selfcheck()
conv = convert
ALL_TEXTS = sorted({t for rows in VALUES.values() for t, _ in rows})
