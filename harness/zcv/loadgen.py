"""Shared machinery of the ZLoad-based checks: generation of the MC module
(schemas, vocabularies, environment tables), loading the rendered schemas on
the real code (with the rendering precondition), executing a text on the real
loader and comparing the outcome with the specification's."""
import io
import os

from . import project, refconv, schemas
from .chars import enc_chars
from .core import MachineryError
from .tlc import SPEC_DIR, tla_value

KEYTYPES = ["basic-key", "identifier", "ipaddr-or-hostname", "~lower~"]


import re as _re
_key_rx = _re.compile(r"([^\s()]+)\s*(.*)\Z", _re.S)


def split_kv(line):
    """(key, value) of a key line as the grammar splits it, or None."""
    s = line.strip()
    if not s or s[0] in "<%#":
        return None
    m = _key_rx.match(s)
    return (m.group(1), m.group(2)) if m else None


def key_tokens(lines):
    toks = set()
    for l in lines:
        kv = split_kv(l)
        if kv:
            toks.add(kv[0])
    return toks


def value_texts(lines):
    out = {""}
    for l in lines:
        kv = split_kv(l)
        if kv:
            out.add(kv[1])
        s = l.strip()
        if s.startswith("%define"):
            parts = s[len("%define"):].split(None, 1)
            if len(parts) == 2:
                out.add(parts[1])
    return out


def tables(recs, vocabs, extra_keys=(), extra_values=()):
    toks = set(extra_keys)
    vals = set(extra_values)
    dts = set()
    for rec, v in zip(recs, vocabs):
        toks |= key_tokens(v)
        vals |= value_texts(v)
        for T in [rec["top"]] + [t for t in rec["types"].values() if not t["abstract"]]:
            for c in T["children"]:
                if c["kind"] in ("key", "multikey"):
                    dts.add(c["dt"])
                    if c["name"] == "+":
                        for d in c["dflt"]:
                            if c["kind"] == "key":
                                vals.add(d[1])
                            else:
                                vals.update(d[1])
                    else:
                        vals.update(c["dflt"])
    # the specification sees text as character tokens (chars.enc): table keys are encoded the same way
    from .chars import enc
    keytab = {}
    for kt in KEYTYPES:
        for t in toks:
            r = refconv.keyconv(kt, t)
            keytab[(kt, enc(t))] = {"ok": r is not None, "v": enc(r) if r else ""}
    convtab = {}
    for dt in dts:
        for t in vals:
            r = refconv.convert(dt, t)
            convtab[(dt, enc(t))] = {"ok": r is not None, "v": r or ""}
    return keytab, convtab


def generated_block(recs, vocabs, keytab, convtab, extra=""):
    parts = []
    parts.append("MCSchemas == " + tla_value([schemas.for_tla(r) for r in recs]))
    parts.append("VocabOf == " + tla_value([{tuple(enc_chars(l)) for l in v} for v in vocabs]).replace("<<>>", "<< >>"))
    parts.append("KeyTab == " + tla_value(keytab))
    parts.append("ConvTab == " + tla_value(convtab))
    if extra:
        parts.append(extra)
    return "\n\n".join(parts)


def mc_module(name, block):
    with open(os.path.join(SPEC_DIR, "mc", name + ".tla")) as f:
        return f.read().replace("@GENERATED@", block)


ZLOAD_OVERRIDES = {"KeyConvOf": "MCKeyConvOf", "ConvOf": "MCConvOf", "SecConvOf": "MCSecConvOf",
                   "ResLines": "MCResLines", "Resolve": "MCResolve", "Package": "MCPackage",
                   "Schemas": "MCSchemas", "Vocab": "MCVocab", "LineClass": "MCLineClass"}


# -- the real code ---------------------------------------------------------------
_schema_cache = {}
DIGEST_MISMATCH = []     # rendered documents whose parsed schema object differs from the abstract record


def real_schema(doc, rec=None, fresh=False):
    """Load the rendered document on the real code; check the rendering
    precondition alpha(parse(rho(S))) = S once per document."""
    import ZConfig
    if doc.get("external"):
        key = "external:" + doc["path"]
        if fresh or key not in _schema_cache:
            _schema_cache[key] = ZConfig.loadSchema(doc["path"])
        return _schema_cache[key]
    xml = schemas.to_xml(doc)
    if not fresh and xml in _schema_cache:
        return _schema_cache[xml]
    sch = ZConfig.loadSchemaFile(io.StringIO(xml))
    if rec is not None:
        try:
            same = project.digest_schema(sch) == project.digest_expected(rec)
        except Exception:
            same = None      # the digest reads internals of info.py; a refactoring there is not a verdict
        if same is not True:
            DIGEST_MISMATCH.append(xml)
    if not fresh:
        _schema_cache[xml] = sch
    return sch


def load_text(schema, text, overrides=(), url=None, rec=None):
    """Run ZConfig.loadConfigFile; returns (abstract outcome, (config, handler) or None)."""
    import ZConfig
    try:
        cfg, handler = ZConfig.loadConfigFile(schema, io.StringIO(text), url=url, overrides=list(overrides))
    except Exception as e:
        return project.exc_outcome(e), None
    try:
        tree = project.proj_section(cfg, rec, top=True) if rec else None
    except Exception as e:      # the returned object cannot even be read: an observation, not a harness failure
        tree = {"unprojectable": "%s: %s" % (type(e).__name__, e)}
    return {"r": "ok", "tree": tree}, (cfg, handler)


_REUSED = {}


def load_text_reused(schema, text, rec=None, url="file:///zcv-one-loader/main.conf"):
    """The text through one long-lived ConfigLoader per schema object (and worker process), always under the
    same URL: what an application does that reads its configuration file again."""
    import ZConfig.loader
    if id(schema) not in _REUSED:
        _REUSED[id(schema)] = (schema, ZConfig.loader.ConfigLoader(schema))
    ld = _REUSED[id(schema)][1]
    try:
        cfg, handler = ld.loadFile(io.StringIO(text), url)
    except Exception as e:
        return project.exc_outcome(e), None
    try:
        tree = project.proj_section(cfg, rec, top=True) if rec else None
    except Exception as e:
        tree = {"unprojectable": "%s: %s" % (type(e).__name__, e)}
    return {"r": "ok", "tree": tree}, (cfg, handler)


def compare_outcome(want, got, check_tree=True):
    """want: m.out of the specification (JSON), got: load_text outcome.
    Returns the failing clause or None (C01 accept/reject + error family,
    C02 tree)."""
    if want["r"] != got["r"]:
        if got["r"] == "err" and got["kind"].startswith("internal:"):
            return "internal-error"
        return "accept/reject"
    if want["r"] == "err":
        if got["kind"].startswith("internal:"):
            return "internal-error"
        return None
    if check_tree and project.canon_section(want["tree"]) != got["tree"]:
        return "value-tree"
    return None
