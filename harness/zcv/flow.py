"""The two binding directions shared by all property checks.

G (spec -> code): TLC explores a bounded instance of the specification,
   checks the design-level invariants and emits every terminal behaviour as
   JSON; `replay(value)` executes the scenario on the real code and returns
   None (agreement) or a dict describing the disagreement.

V (code -> spec): the harness has executed scenarios on the real code and
   recorded them; TLC validates each record against the specification and
   prints one verdict per record ({"tid":..,"clause":..}); a clause other than
   "accepted" (or a record that never reached a verdict) is a rejection.
"""
import json
import os

from . import tlc
from .core import MachineryError


def cfg_text(spec="Spec", constants=None, invariants=(), properties=(),
             constraint=None, view=None, overrides=None, deadlock=False,
             postcondition=None):
    lines = ["SPECIFICATION " + spec]
    for k, v in (constants or {}).items():
        lines.append("CONSTANT %s = %s" % (k, v))
    for k, v in (overrides or {}).items():
        lines.append("CONSTANT %s <- %s" % (k, v))
    for i in invariants:
        lines.append("INVARIANT " + i)
    for p in properties:
        lines.append("PROPERTY " + p)
    if constraint:
        lines.append("CONSTRAINT " + constraint)
    if view:
        lines.append("VIEW " + view)
    if postcondition:
        lines.append("POSTCONDITION " + postcondition)
    lines.append("CHECK_DEADLOCK " + ("TRUE" if deadlock else "FALSE"))
    return "\n".join(lines) + "\n"


def _replay_batch(args):
    """Worker: decode and replay a batch of emitted behaviours."""
    replay, nontrivial, lines, want_sample = args[:4]
    tally = args[4] if len(args) > 4 else None
    counts = {}
    n = nt = 0
    bad = []
    sample = None
    for line in lines:
        v = json.loads(json.loads(line))
        n += 1
        if nontrivial is not None and nontrivial(v) is not None:
            nt += 1
        if want_sample and sample is None:
            sample = v
        if tally is not None:
            k = tally(v)
            counts[k] = counts.get(k, 0) + 1
        d = replay(v)
        if d is not None:
            d2 = replay(v)
            d["_reproduced"] = d2 is not None
            d.setdefault("direction", "G")
            d.setdefault("emitted", v)
            bad.append(d)
    if tally is not None:
        return n, nt, bad, sample, counts
    return n, nt, bad, sample


def run_g(chk, module, cfg, replay, *, nontrivial=None, sample_every=None,
          workers=6, timeout=1500, extra_files=None, procs=12, batch=1500, tally=None, history_ok=False, **kw):
    """Explore with TLC, replay every emitted behaviour on the real code.
    `replay` and `nontrivial` must be module-level functions (they run in
    forked worker processes)."""
    import multiprocessing as mp
    ctx = mp.get_context("fork")
    pool = ctx.Pool(procs)
    pending = []
    buf = []
    total = [0]
    nb = [0]

    def flush():
        if buf:
            nb[0] += 1
            want_sample = bool(sample_every) and (nb[0] % max(1, sample_every // batch) == 1)
            pending.append(pool.apply_async(_replay_batch, ((replay, nontrivial, list(buf), want_sample, tally),)))
            del buf[:]

    def on_raw(line):
        buf.append(line)
        if len(buf) >= batch:
            flush()

    try:
        r = tlc.run(module, cfg, on_raw=on_raw, workers=workers, timeout=timeout,
                    extra_files=extra_files, **kw)
        flush()
        for p in pending:
            res = p.get()
            n, nt, bad, sample = res[:4]
            if tally is not None:
                tl = chk.extra.setdefault("tally", {})
                for k, c in res[4].items():
                    tl[k] = tl.get(k, 0) + c
            total[0] += n
            chk.evaluations += n
            chk.traces += n
            chk.nontrivial_count += nt
            if sample is not None:
                chk.sample(sample)
            for d in bad:
                if not d.pop("_reproduced"):
                    if not history_ok:
                        raise MachineryError("disagreement not reproducible: %r" % (repr(d)[:3000],))
                    # the code under test is a function of its arguments (history_ok: the caller says so): the same
                    # call giving another answer the second time is a disagreement in its own right
                    d["clause"] = "%s (asked again with the same arguments the answer was another one)" % d.get("clause")
                    d.setdefault("class", {})["depends_on_history"] = True
                chk.disagree(d)
    finally:
        pool.terminate()
        pool.join()
    chk.add_tlc(r)
    if r.violation:
        raise MachineryError(
            "design-level check failed in TLC: %s is violated - the operational and the "
            "declarative formulation of the specification disagree\n%s" % (r.violation, r.error_text))
    if total[0] == 0:
        raise MachineryError("TLC emitted no behaviour for %s" % (module[:60],))
    return r, total[0]


def run_v(chk, module, cfg, records, describe, *, workers=1, timeout=1500,
          extra_files=None, nontrivial=None, header=None, **kw):
    """Validate recorded executions.  records: list of JSON-able dicts (the
    harness' own bookkeeping may live under keys starting with '_', which are
    not written to the trace file).  describe(i, record, clause) builds the
    disagreement detail for a rejected record."""
    if not records:
        return None
    trace = [{k: v for k, v in rec.items() if not k.startswith("_")} for rec in records]
    d = tlc.mkscratch("zcv-trace-")
    path = os.path.join(d, "trace.json")
    try:
        with open(path, "w") as f:
            doc = {"recs": trace}
            doc.update(header or {})
            json.dump(doc, f)
        verdicts = {}

        def on_value(v):
            verdicts[v["tid"]] = v

        cfg = cfg.replace("@N@", str(len(records)))
        r = tlc.run(module, cfg, on_value=on_value, workers=workers, timeout=timeout,
                    env={"TRACE_FILE": path}, extra_files=extra_files, **kw)
    finally:
        import shutil
        shutil.rmtree(d, ignore_errors=True)
    chk.add_tlc(r)
    if r.violation:
        raise MachineryError("TLC reported %s while validating traces\n%s" % (r.violation, r.error_text))
    seen_fp = set()
    for i, rec in enumerate(records, 1):
        chk.evaluations += 1
        chk.traces += 1
        v = verdicts.get(i)
        clause = v["clause"] if v else "no-behaviour-of-the-specification-matches"
        if nontrivial is not None and nontrivial(rec, v):
            fp = json.dumps(trace[i - 1], sort_keys=True, default=str)
            if fp not in seen_fp:          # recorded executions may repeat: each distinct one counts once
                seen_fp.add(fp)
                chk.nontrivial_count += 1
        if clause != "accepted":
            det = describe(i, rec, clause, v)
            if det is None:
                continue
            det.setdefault("direction", "V")
            det.setdefault("clause", clause)
            chk.disagree(det)
    return r
