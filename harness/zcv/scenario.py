"""Scenario-driven use of the loader specification (MC_ZLoadS).

A scenario = schema index + named files (lists of lines) + main file name +
override specifiers + meta data of the generating check.  The set is written
as JSON for TLC (which runs the ZLoadS machine on each scenario and emits the
specification's outcome) and executed on the real code with real files in a
scratch directory.
"""
import json
import os
import posixpath
import shutil
import urllib.parse

from . import flow, loadgen, project, refconv, schemas, tlc
from .chars import enc, enc_chars
from .core import MachineryError


class Scenarios:
    def __init__(self, docs):
        self.docs = docs
        self.recs = [schemas.valid_doc(d) for d in docs]
        if any(r is None for r in self.recs):
            raise MachineryError("generated schema document is not rule-abiding")
        self.items = []
        self.packages = {}
        self.proj_recs = None      # records extended with importable types, for projecting real trees

    def add(self, sid, files, main="d/main.conf", opts=(), meta=None, twin=None):
        """files: {relative path: [line, ...]}; sid is 0-based; twin: index of a
        scenario that must have the same outcome."""
        self.items.append({"sid": sid, "files": files, "main": main, "opts": list(opts), "meta": meta or {},
                           "twin": twin})
        return len(self.items) - 1

    def _culprit(self, i, it):
        c = it["meta"].get("culprit")
        if not c:
            return {"res": "", "line": 0, "kinds": ["none"], "value": ""}
        return {"res": "%d/%s" % (i, c["file"]), "line": c["line"], "kinds": list(c["kinds"]),
                "value": enc(c.get("value", ""))}

    # -- JSON for TLC -------------------------------------------------------
    def _include_args(self, lines):
        out = []
        for l in lines:
            s = l.strip()
            if s.startswith("%include"):
                out.append(s[len("%include"):].strip())
        return out

    def to_json(self):
        scn, res, resolve = [], {"~none~": []}, {"~none~|": ""}
        for i, it in enumerate(self.items):
            for name, lines in it["files"].items():
                res["%d/%s" % (i, name)] = [enc_chars(l) for l in lines]
            for name, lines in it["files"].items():
                for arg in self._include_args(lines):
                    if "$" in arg:
                        continue
                    target = posixpath.normpath(posixpath.join(posixpath.dirname(name), arg))
                    resolve["%d/%s|%s" % (i, name, enc(arg))] = ("%d/%s" % (i, target)) if target in it["files"] else ""
            for (dname, arg), target in it["meta"].get("resolve", {}).items():
                # keyed by the includer's directory: every file of that directory resolves alike
                for name in it["files"]:
                    if posixpath.dirname(name) == dname:
                        resolve["%d/%s|%s" % (i, name, enc(arg))] = ("%d/%s" % (i, target)) if target else ""
            scn.append({"sid": it["sid"] + 1, "main": "%d/%s" % (i, it["main"]),
                        "twin": 0 if it["twin"] is None else it["twin"] + 1,
                        "culprit": self._culprit(i, it),
                        "fault": ({"res": "%d/%s" % (i, it["meta"]["fault"][0]), "n": it["meta"]["fault"][1]}
                                  if it["meta"].get("fault") else {"res": "", "n": 0}),
                        "opts": [enc_chars(o) for o in it["opts"]]})
        return {"scn": scn, "res": res, "resolve": resolve}

    def tables(self):
        vocabs = []
        extra_k, extra_v = set(), set()
        for it in self.items:
            for lines in it["files"].values():
                vocabs.append(lines)
            for o in it["opts"]:
                if "=" in o:
                    extra_k.update(o.split("=", 1)[0].split("/"))
                    extra_v.add(o.split("=", 1)[1])
        toks = set(extra_k)
        vals = set(extra_v)
        for v in vocabs:
            toks |= loadgen.key_tokens(v)
            vals |= loadgen.value_texts(v)
        fake = [[]] * len(self.recs)
        return loadgen.tables(self.recs, [[] for _ in self.recs], extra_keys=toks, extra_values=vals)

    def module(self, extra_values=()):
        keytab, convtab = self.tables()
        for dt in {d for (d, _) in convtab}:
            for t in extra_values:
                r = refconv.convert(dt, t)
                convtab[(dt, enc(t))] = {"ok": r is not None, "v": r or ""}
        # what str.lower() does to the non-ASCII characters that occur (asked of Python directly: environment)
        from .chars import ext_tables
        lower = {}
        seen = set()
        for it in self.items:
            for lines in it["files"].values():
                for l in lines:
                    seen.update(str(l))
            for o in it["opts"]:
                seen.update(o)
        for c in sorted(seen):
            if ord(c) > 126:
                try:
                    lo, _ = ext_tables([c])
                except ValueError:
                    continue
                lower.update(lo)
        parts = ["MCExtLower == " + (tlc.tla_value(lower) if lower else "[c \\in {} |-> c]"),
                 "MCSchemas == " + tlc.tla_value([schemas.for_tla(r) for r in self.recs]),
                 "KeyTab == " + tlc.tla_value(keytab),
                 "ConvTab == " + tlc.tla_value(convtab),
                 "MCPackages == " + (tlc.tla_value(self.packages) if self.packages else '("~none~" :> [ok |-> FALSE])')]
        return loadgen.mc_module("MC_ZLoadEnv", "\n\n".join(parts))

    OVERRIDES = {"KeyConvOf": "MCKeyConvOf", "ConvOf": "MCConvOf", "SecConvOf": "MCSecConvOf",
                 "ResLines": "MCResLines", "Resolve": "MCResolve", "Package": "MCPackage",
                 "Schemas": "MCSchemas", "ScnSchema": "MCScnSchema", "ScnMain": "MCScnMain", "ScnOpts": "MCScnOpts",
                 "ScnTwin": "MCScnTwin", "ScnCulprit": "MCScnCulprit", "ExtSpace": "MCExtSpace", "ExtLower": "MCExtLower",
                 "ScnFault": "MCScnFault"}

    def run_spec(self, chk, invariants=(), properties=(), workers=6, timeout=3000, extra_values=()):
        """Run TLC over all scenarios; returns the emitted record per scenario."""
        d = tlc.mkscratch("zcv-scn-")
        path = os.path.join(d, "scn.json")
        out = {}
        try:
            with open(path, "w") as f:
                json.dump(self.to_json(), f)
            cfg = flow.cfg_text(constants={"NScn": len(self.items)}, overrides=self.OVERRIDES,
                                invariants=["STypeOK", "OnlyConfigErrors", "FramesAreOpenResources", "LifoClose",
                                            "TwinSameOutcome", "ErrorPositionIsCulprit", "AllClosedAtEnd"]
                                + list(invariants) + ["Emit"],
                                properties=["DefinesWriteOnce", "FailureIsFinal2"] + list(properties))

            def on_value(v):
                out[v["scn"] - 1] = v

            r = tlc.run("MC_ZLoadS", cfg, on_value=on_value, workers=workers, timeout=timeout,
                        env={"TRACE_FILE": path}, extra_files={"MC_ZLoadEnv.tla": self.module(extra_values)})
        finally:
            shutil.rmtree(d, ignore_errors=True)
        chk.add_tlc(r)
        if r.violation:
            import re
            mm = re.findall(r"scn = (\d+)", r.error_text)
            item = self.items[int(mm[-1]) - 1] if mm else None
            tail = "\n".join(l for l in r.error_text.splitlines() if "out |->" in l or "kind |->" in l
                             or "line |->" in l or "res |->" in l or "why |->" in l)[-1500:]
            raise MachineryError("design-level check failed in TLC: %s\nscenario: %s\n%s" % (
                r.violation, json.dumps({k: item[k] for k in ("files", "opts", "meta")}, default=str)[:3000]
                if item else None, tail))
        if len(out) != len(self.items):
            raise MachineryError("TLC emitted %d outcomes for %d scenarios\n%s" % (len(out), len(self.items),
                                                                               "\n".join(r.raw_tail[-20:])))
        return [out[i] for i in range(len(self.items))]


# -- execution on the real code -------------------------------------------------------
class Workspace:
    """A scratch directory holding the files of one scenario at a time."""

    def __init__(self):
        self.root = tlc.mkscratch("zcv-ws-")
        self.n = 0

    def close(self):
        shutil.rmtree(self.root, ignore_errors=True)

    def materialise(self, files, in_place=False):
        """in_place: write into the directory of the previous scenario (the same URLs, new contents: a
        configuration that was corrected and is read again)."""
        if getattr(self, "_last", None) is files:
            return self._last_base
        if in_place and getattr(self, "_last_base", None):
            base = self._last_base
        else:
            self.n += 1
            base = os.path.join(self.root, "w%d" % (self.n % 50))
        # files that are already there with the same content (the fragments most scenarios of a check share) are
        # left alone; a directory somebody else wrote into (symbolic links, see run_real) is rebuilt
        cache = self.__dict__.setdefault("_content", {})
        prev = cache.get(base)
        if prev is None:
            shutil.rmtree(base, ignore_errors=True)
            prev = {}
        new = {name: tuple(str(l) for l in lines) for name, lines in files.items()}
        for name in prev:
            if name not in new:
                try:
                    os.remove(os.path.join(base, name))
                except OSError:
                    pass
        for name, lines in new.items():
            if prev.get(name) == lines:
                continue
            p = os.path.join(base, name)
            os.makedirs(os.path.dirname(p), exist_ok=True)
            with open(p, "w", encoding="utf-8", newline="") as f:
                f.write("".join(l + "\n" for l in lines))
        cache[base] = new
        self._last, self._last_base = files, base
        return base

    def touched(self, base):
        """The directory was changed behind materialise's back: build it afresh next time."""
        self.__dict__.setdefault("_content", {}).pop(base, None)


def url_to_name(url, base):
    if not url:
        return ""
    if not isinstance(url, str):
        return "~not-a-url:%r" % (url,)
    if url.startswith("file://"):
        p = urllib.parse.unquote(url[len("file://"):])
        if p.startswith(base + "/"):
            return p[len(base) + 1:]
    return url


def run_real(ws, schema, rec, item, loader_factory=None):
    """Execute one scenario; returns (outcome, (config, handler) or None).
    outcome['res'] is the file name (relative) the error names."""
    import ZConfig
    base = ws.materialise(item["files"])
    main = os.path.join(base, item["main"])
    if item["meta"].get("main_link") and not os.path.islink(main):
        # the configuration is named through a symbolic link: relative references resolve against the
        # resource as named, not against the place the link leads to
        real = os.path.join(base, "zreal", os.path.basename(main))
        os.makedirs(os.path.dirname(real), exist_ok=True)
        os.replace(main, real)
        os.symlink(real, main)
        ws.touched(base)
    ovs = list(item["opts"])
    try:
        if loader_factory is not None:
            cfg, handler = loader_factory(schema, ovs).loadURL(main)
        else:
            cfg, handler = ZConfig.loadConfig(schema, main, overrides=ovs)
    except Exception as e:
        o = project.exc_outcome(e)
        o["res"] = url_to_name(o.get("url"), base)
        return o, None
    try:
        tree = project.proj_section(cfg, rec, top=True)
    except Exception as e:      # the returned object cannot even be read: that is an observation, not a harness failure
        tree = {"unprojectable": "%s: %s" % (type(e).__name__, e)}
    return {"r": "ok", "tree": tree}, (cfg, handler)


def run_real_again(ws, schema, rec, item, loader):
    """The scenario once more through an existing loader object (its files are already in place)."""
    base = ws.materialise(item["files"])
    main = os.path.join(base, item["main"])
    try:
        cfg, handler = loader.loadURL(main)
    except Exception as e:
        o = project.exc_outcome(e)
        o["res"] = url_to_name(o.get("url"), base)
        return o
    try:
        tree = project.proj_section(cfg, rec, top=True)
    except Exception as e:
        tree = {"unprojectable": "%s: %s" % (type(e).__name__, e)}
    return {"r": "ok", "tree": tree}


# -- parallel replay ---------------------------------------------------------------------
_CTX = {}


def _replay_chunk(idxs):
    sc, outs, fn = _CTX["sc"], _CTX["outs"], _CTX["fn"]
    ws = Workspace()
    bad = []
    other = []
    nt = 0
    try:
        for i in idxs:
            item = sc.items[i]
            try:
                sch = loadgen.real_schema(sc.docs[item["sid"]], sc.recs[item["sid"]])
            except Exception as e:
                # the schema of the scenario - rule-abiding by construction, and loaded by the unchanged code - is
                # refused: nothing can be loaded against it, which is a disagreement about every scenario that uses it
                import ZConfig
                if not isinstance(e, (ZConfig.ConfigurationError, ValueError, TypeError, AttributeError, KeyError)):
                    raise
                bad.append({"clause": "the schema of the scenario is refused", "observed": "%s: %s" % (type(e).__name__, e),
                            "_reproduced": True, "direction": "G", "class": {"clause": "schema-refused"},
                            "scenario": {"schema_xml": schemas.to_xml(sc.docs[item["sid"]])}, "spec": outs[i]["o"]})
                continue
            prec = (sc.proj_recs or sc.recs)[item["sid"]]
            d = fn(ws, sch, prec, item, outs[i])
            if d is not None and not d.get("_count_only"):
                d2 = fn(ws, sch, prec, item, outs[i])
                d["_reproduced"] = d2 is not None
                d.setdefault("direction", "G")
                d.setdefault("scenario", {"schema_xml": schemas.to_xml(sc.docs[item["sid"]]),
                                          "files": item["files"], "main": item["main"], "opts": item["opts"]})
                d.setdefault("spec", outs[i]["o"])
                bad.append(d)
            elif d is not None:
                got, _ = run_real(ws, sch, prec, item)
                other.append({"files": item["files"], "opts": item["opts"], "spec": outs[i]["o"], "observed": got,
                              "schema_xml": schemas.to_xml(sc.docs[item["sid"]])})
            if item["meta"].get("nontrivial", True):
                nt += 1
    finally:
        ws.close()
    return len(idxs), nt, bad, other


def replay_all(chk, sc, outs, fn, procs=12, chunk=200):
    """fn(ws, schema, rec, item, spec_emit) -> None | disagreement dict; must be a module-level function."""
    import multiprocessing as mp
    _CTX.update(sc=sc, outs=outs, fn=fn)
    idx = list(range(len(sc.items)))
    chunks = [idx[i:i + chunk] for i in range(0, len(idx), chunk)]
    ctx = mp.get_context("fork")
    with ctx.Pool(procs) as pool:
        for n, nt, bad, other in pool.imap_unordered(_replay_chunk, chunks):
            chk.extra.setdefault("outcome_disagreements_not_judged_here", []).extend(other[:5])
            chk.evaluations += n
            chk.traces += n
            for d in bad:
                if not d.pop("_reproduced"):
                    raise MachineryError("disagreement not reproducible: %r" % (d,))
                chk.disagree(d)
    # non-trivial scenarios are counted once each: random generation may repeat a scenario
    seen = set()
    for it in sc.items:
        if it["meta"].get("nontrivial", True):
            seen.add(json.dumps([it["sid"], sorted((k, [str(l) for l in v]) for k, v in it["files"].items()),
                                 it["main"], it["opts"], it["meta"].get("fault")], sort_keys=True, default=str))
    chk.nontrivial_count += len(seen)


# -- sessions (C12, C13) ------------------------------------------------------------------
def session_digest(schema):
    try:
        d = project.digest_schema(schema)
    except Exception as e:      # a schema object that can no longer be read has certainly changed
        return {"rest": "~unreadable: %s: %s~" % (type(e).__name__, e), "impl": [["~none~", []]]}
    impl = []

    def strip(t):
        if t.get("abstract"):
            return {"abstract": True}
        return t
    for n, t in sorted(d["types"].items()):
        if t.get("abstract"):
            impl.append([n, list(t["impl"])])
    rest = {"top": d["top"], "types": {n: strip(t) for n, t in sorted(d["types"].items())}}
    return {"rest": json.dumps(rest, sort_keys=True), "impl": impl or [["~none~", []]]}


def logged_outcome(got_spec_tree, got):
    if got["r"] == "ok":
        return {"r": "ok", "kind": "", "line": 0, "tree": got_spec_tree}
    line = got.get("line")
    return {"r": "err", "kind": got["kind"], "line": line if isinstance(line, int) and not isinstance(line, bool) else -1,
            "tree": {"type": "", "name": "", "attrs": []}}


def validate_sessions(chk, sc, sessions, describe, timeout=3000):
    """sessions: [{"sid", "digest0", "steps": [{"op", "scn", "out", "digest"}], ...}] recorded from the real code."""
    d = tlc.mkscratch("zcv-sess-")
    path = os.path.join(d, "scn.json")
    verdicts = {}
    try:
        doc = sc.to_json()
        doc["sessions"] = [{k: v for k, v in s.items() if not k.startswith("_")} for s in sessions]
        with open(path, "w") as f:
            json.dump(doc, f)
        ov = {k: v for k, v in sc.OVERRIDES.items() if k in ("KeyConvOf", "ConvOf", "SecConvOf", "ResLines", "Resolve",
                                                             "Package", "ExtSpace", "ExtLower")}
        cfg = flow.cfg_text(constants={"NSess": len(sessions)}, overrides=ov, invariants=["Verdict"])

        def on_value(v):
            verdicts[v["tid"]] = v
        r = tlc.run("MC_ZSession", cfg, on_value=on_value, workers=6, timeout=timeout,
                    env={"TRACE_FILE": path}, extra_files={"MC_ZLoadEnv.tla": sc.module()})
    finally:
        shutil.rmtree(d, ignore_errors=True)
    chk.add_tlc(r)
    if r.violation:
        raise MachineryError("TLC reported %s while validating sessions\n%s" % (r.violation, r.error_text[:3000]))
    for i, s in enumerate(sessions, 1):
        chk.evaluations += 1
        chk.traces += 1
        chk.nontrivial_count += 1
        v = verdicts.get(i)
        clause = v["clause"] if v else "no-behaviour-of-the-specification-matches"
        if clause != "accepted":
            det = describe(s, clause, v)
            det.setdefault("direction", "V")
            det.setdefault("clause", clause)
            chk.disagree(det)
    return verdicts
