"""C09 - every standard datatype is a total function honouring its documented
contract.

Specification: spec/ZDatatypes.tla (transcription Conv + documented Contract
per datatype), spec/ZRegex.tla (documented shapes as automata).
G: per datatype TLC enumerates every string up to the bound over that type's
   alphabet, checks Contract(dt, s, Conv(dt, s)) and the idempotence of key
   normalisers, and emits every result; each is replayed on
   Registry().get(dt)(string) - value or exception class.
Product: for the regular-expression based types the *live* pattern object is
   compiled to a DFA and TLC explores its product with the documented
   automaton (equivalence for strings of every length).
Random Unicode strings are converted for totality (only ValueError, or
TypeError for timedelta's unknown unit).
Registry: spec/ZRegistry.tla (stock table, name normalisation, register /
   search); TLC explores every sequence of MaxOps get / register operations
   over stock names in two letter cases, application names, dotted names that
   do / do not resolve and a name that is no basic key, checks that the stock
   table is never shadowed, that a name keeps its first conversion and that
   get is idempotent, and every history is replayed on a fresh Registry.
"""
import datetime
import os
import itertools
import random
import socket

from .. import flow, redfa, tlc
from ..chars import enc_char
from ..core import MachineryError
from .c03 import dec_line, dec_str

# datatype -> (alphabet, quick bound, thorough bound)
PLAN = {
    "basic-key": ("aB1-._é \u212a", 5, 6),          # U+212A KELVIN SIGN lower-cases to ASCII 'k'
    "identifier": ("aB1-._é \u212a", 5, 6),
    "dotted-name": ("aB1-._é", 5, 6),
    "dotted-suffix": ("aB1-._é", 5, 6),
    "boolean": ("onfONyes \u017f", 4, 5),                # long s: casefold() makes it 's', lower() does not
    "integer": ("0179-+_ a", 4, 5),
    "port-number": ("03569-+_ ", 5, 6),
    "byte-size": ("10kmgbKB- ", 4, 5),
    "time-interval": ("10smhdS-x\u017f", 4, 5),
    "string-list": ("ab \t", 5, 7),
    "inet-address": ("aB1:[].6 ", 4, 5),
    "inet-binding-address": ("aB1:[].6 ", 4, 5),
    "inet-connection-address": ("aB1:[].6 ", 4, 5),
    "socket-address": ("aB1:/[].", 4, 5),
    "socket-connection-address": ("aB1:/[].", 4, 5),
    "ipaddr-or-hostname": ("125.aF:_-g", 5, 6),
    "timedelta": ("1.esw x-9dWH", 4, 5),
    "string": ("a $é", 3, 3),
    "null": ("a $é", 3, 3),
}
# representative strings beyond the enumeration bound (still run through the specification by TLC)
EXTRA = {
    "ipaddr-or-hostname": ["1:2:3:4:5:6:7::", "::2:3:4:5:6:7:8", "1:2:3:4:5:6:7:8", "1:2:3:4:5:6:7:8:9", "2001:DB8:1:2:3:4:5::",
                           "fe80::1:2:3:4", "::ffff:1.2.3.4", "1::2::3", "12345::", "255.255.255.255", "256.1.1.1",
                           "1.2.3.4.5", "host-name.Example.COM", "a.b.c.d.e.f.g", "-leading.dash", "trailing.dot.",
                           "under_score.ok", "1.2.3", "01.2.3.4", "1.2.3.04", ":::", "::1::", "g::1", "127.0.0.1\n", "host.name\n", "::1\n"],
    "port-number": ["65535", "65536", "000080", "+65535", "-0", "6_5_5", " 80 ", "99999999999999999999"],
    "byte-size": ["1024KB", "12gB", "007mb", "4294967296", "1kbkb", "1 kb", "-5MB", "1_0kb", "12bk", "9999999999999gb"],
    "time-interval": ["86400", "36h", "7D", "1d1", "12ms", "0s", "-3m", "1_0m", "5 m", "99999999999d"],
    "integer": ["123456789012345678901234567890", "-000", "+1_000", "1__0", "_1", "1_", " 12\t", "0x1f", "1e3"],
    "inet-address": ["[::1]:80", "[fe80::1]:8080", "[::1]", "[::1]:", "[::1]:99999", "Host.Example:443", "host:", ":8080",
                     "1.2.3.4:80", "::1", "fe80::1", "[FE80::A]:1", "host:80:90", "[host]:80", "[]:80", "[::1]x:80", "[]:"],
    "inet-binding-address": ["[::1]:80", ":8080", "8080", "Host:1", "[FE80::A]:1", "::", "[]:80", "[]:"],
    "inet-connection-address": ["[::1]:80", ":8080", "8080", "Host:1", "[FE80::A]:1", "::", "[]:80", "[]:"],
    "socket-address": ["/var/run/x.sock", "relative/path", "[::1]:80", "1.2.3.4:80", "Host:80", "8080", "fe80::1"],
    "boolean": ["yes", "YES", "tRuE", "off", "0", "1", "y", "yess", " on", "fal\u017fe", "ye\u017f"],
    "timedelta": ["1w2d3h4m5s", "1.5h", "2d 3h", "1w 1w", "5x", "3", "1e1s", "h", "-1d", "1d2d", "1S", "4m3w"],
    # (a text that ends in a line feed is not of the documented shape: '$' in a pattern also matches before it)
    "identifier": ["a" * 40, "_" * 20 + "1", "A1b2C3d4e5", "caf\u00e9", "x\u212a", "abc_1\n", "a\n\n"],
    "basic-key": ["a" * 40, "a-b.c_d-e.f", "Z9.-_", "x\u212a", "\u212a1", "Abc\n", "\nabc"],
    "dotted-name": ["a.b.c.d.e.f.g.h", "a..b", "a.b.", ".a.b", "a.1b", "A_1.B_2", "a.b\n"],
    "dotted-suffix": [".a.b.c.d", "a.b.c.d", "..a", ".a..b", ".a.", ".1a", ".a.b\n"],
}


REGEX_KINDS = {"basic-key": "basic-key", "identifier": "identifier", "dotted-name": "dotted-name",
               "dotted-suffix": "dotted-suffix"}


def ext_lower(alpha):
    """str.lower() of the non-ASCII characters of an alphabet (environment table of ZChars)."""
    from ..chars import ext_tables
    return ext_tables(alpha)[0]


def strings(alpha, n):
    for k in range(n + 1):
        for t in itertools.product(alpha, repeat=k):
            yield "".join(t)


def env_sets(alpha, n, dt):
    v6, fl = set(), set()
    if dt == "ipaddr-or-hostname":
        for s in itertools.chain(strings(alpha, n), EXTRA.get(dt, [])):
            if ":" in s:
                try:
                    socket.inet_pton(socket.AF_INET6, s.lower())
                    v6.add(s.lower())
                except (OSError, ValueError):
                    pass
    if dt == "timedelta":
        import re as _re
        extra_nums = {m for x in EXTRA.get(dt, []) for m in _re.findall(r"[-+0-9.eE_ ]+", x)} | set(EXTRA.get(dt, []))
        for s in itertools.chain(strings(alpha, n), extra_nums):
            try:
                float(s)
                fl.add(s)
            except ValueError:
                pass
    return v6, fl


_REG = {}


def converter(dt):
    if "r" not in _REG:
        import ZConfig.datatypes
        _REG["r"] = ZConfig.datatypes.Registry()
    return _REG["r"].get(dt)


def observe(dt, text):
    try:
        return {"ok": True, "v": converter(dt)(text)}
    except ValueError:
        return {"ok": False, "exc": "ValueError"}
    except TypeError:
        return {"ok": False, "exc": "TypeError"}
    except Exception as e:
        return {"ok": False, "exc": type(e).__name__}


def expected_value(dt, v):
    """Python value the specification's result denotes."""
    if dt in ("basic-key", "identifier", "dotted-name", "dotted-suffix", "ipaddr-or-hostname", "string", "null"):
        return dec_str(v)
    if dt == "boolean":
        return v == "True"
    if dt in ("integer", "port-number"):
        return int(v)
    if dt in ("byte-size", "time-interval"):
        return int(v[0]) * int(v[1])
    if dt == "string-list":
        return [dec_str(x) for x in v]
    if dt.startswith("inet-"):
        return (dec_str(v[0]), None if v[1] == "None" else int(v[1]))
    if dt == "timedelta":
        return datetime.timedelta(weeks=float(v["w"]), days=float(v["d"]), hours=float(v["h"]),
                                  minutes=float(v["m"]), seconds=float(v["s"]))
    raise KeyError(dt)


def replay_g(e):
    d = judge(e)
    if d is None:
        # a datatype is a function of its argument: the same converter object, asked again, gives the same answer
        d = judge(e)
        if d is not None:
            d["clause"] = "asked-again: " + d["clause"]
            d["class"]["again"] = True
    return d


def judge(e):
    dt = e["dt"]
    text = dec_line(e["s"])
    want = e["r"]
    got = observe(dt, text)
    why = None
    if want["ok"] and dt == "timedelta":
        # datetime.timedelta's range is environment: where the constructor overflows the datatype must say ValueError
        try:
            expected_value(dt, want["v"])
        except OverflowError:
            want = {"ok": False, "exc": "ValueError"}
    if got["ok"] != want["ok"]:
        why = "accepts" if got["ok"] else "rejects"
        if not got["ok"] and got["exc"] not in ("ValueError", "TypeError"):
            why = "exception:" + got["exc"]
    elif not got["ok"]:
        if got["exc"] != want["exc"]:
            why = "exception-class"
    else:
        if dt.startswith("socket-"):
            fam = {"AF_UNIX": getattr(socket, "AF_UNIX", None), "AF_INET": socket.AF_INET, "AF_INET6": socket.AF_INET6}[want["v"][0]]
            addr = dec_str(want["v"][1]) if want["v"][0] == "AF_UNIX" else (dec_str(want["v"][1][0]),
                                                                            None if want["v"][1][1] == "None" else int(want["v"][1][1]))
            if got["v"].family != fam:
                why = "family"
            elif got["v"].address != addr:
                why = "value"
        else:
            try:
                exp = expected_value(dt, want["v"])
            except OverflowError:
                exp = "~overflow~"
            if got["v"] != exp or type(got["v"]) is not type(exp):
                why = "value"
    if why is None:
        return None
    return {"clause": why, "input": {"datatype": dt, "text": text}, "spec": want,
            "observed": {k: repr(v) for k, v in got.items()},
            "class": {"clause": why.split(":")[0], "datatype": dt,
                      "exception": got.get("exc") if not got["ok"] else None,
                      "ipv6_hex_first": dt == "ipaddr-or-hostname" and ":" in text and text[:1].lower() in "abcdef"}}


def nontrivial_g(e):
    return True if e["s"] else None


def product_checks(chk):
    """Live regex x documented automaton, by TLC."""
    import ZConfig.datatypes as D
    import ZConfig.substitution
    import ZConfig.cfgparser
    A = list("aB1-._ :()$/\t") + ["é", "٣", "　"]
    jobs = []
    # the pattern objects are module-private: one that is no longer where it used to be is skipped (noted),
    # the enumeration part of the check does not depend on it
    for dt, kind in REGEX_KINDS.items():
        jobs.append((kind, getattr(D.stock_datatypes.get(dt), "_rx", None), "datatype " + dt))
    jobs.append(("substitution-name", getattr(ZConfig.substitution, "_name_re", None), "substitution._name_re"))
    jobs.append(("config-token", getattr(ZConfig.cfgparser, "_name_re", None), "cfgparser._name_re"))
    done = []
    missing = [what for _, rx, what in jobs if rx is None]
    if missing:
        chk.note("regex_patterns_not_found", missing)
    jobs = [j for j in jobs if j[1] is not None]
    for kind, rx, what in jobs:
        try:
            d = redfa.dfa(rx, A)
            redfa.selfcheck(rx, d, A, 3)
        except redfa.Unsupported as e:
            done.append({"pattern": what, "skipped": str(e)})
            continue
        delta, acc, init = d
        toks = [enc_char(c) for c in A]
        mod = ("---- MODULE MC_ZRegex ----\nEXTENDS ZRegex\n"
               "MCAlphabet == " + tlc.tla_value(set(toks)) + "\n"
               "MCLiveDelta == " + tlc.tla_value({q: {enc_char(c): t for c, t in row.items()} for q, row in delta.items()}) + "\n"
               "MCLiveAcc == " + tlc.tla_value(set(acc)) + "\n"
               "MCExtSpace == {\"~u3000;\"}\n====\n")
        cfg = flow.cfg_text(constants={"Kind": tlc.tla_str(kind), "LiveInit": init},
                            overrides={"Alphabet": "MCAlphabet", "LiveDelta": "MCLiveDelta", "LiveAcc": "MCLiveAcc",
                                       "ExtSpace": "MCExtSpace"},
                            invariants=["SameLanguage"])
        r = tlc.run(mod, cfg, workers=1, timeout=300)
        chk.add_tlc(r)
        chk.evaluations += 1
        if r.violation:
            # the counterexample is a string; extract it from the trace
            word = "".join(dec_line([t]) for t in [])  # the trace holds states only; re-derive a witness by search
            wit = None
            for s in strings(A, 6):
                if redfa.accepts(d, s) != bool(_spec_accepts(kind, s)):
                    wit = s
                    break
            chk.disagree({"clause": "live-pattern-language", "pattern": what, "live_pattern": getattr(rx, "pattern", rx),
                          "witness": wit, "tlc": r.error_text[:1500], "direction": "G",
                          "class": {"clause": "live-pattern-language", "pattern": what}})
        done.append({"pattern": what, "product_states": r.distinct})
    chk.note("regex_product_checks", done)


def _spec_accepts(kind, s):
    import re
    shapes = {"basic-key": r"[a-zA-Z][-._a-zA-Z0-9]*", "identifier": r"[_a-zA-Z][_a-zA-Z0-9]*",
              "substitution-name": r"[_a-zA-Z][_a-zA-Z0-9]*",
              "dotted-name": r"[_a-zA-Z][_a-zA-Z0-9]*(\.[_a-zA-Z][_a-zA-Z0-9]*)*",
              "dotted-suffix": r"([_a-zA-Z][_a-zA-Z0-9]*(\.[_a-zA-Z][_a-zA-Z0-9]*)*)|(\.[_a-zA-Z][_a-zA-Z0-9]*)+",
              "config-token": r"[^\s()]+"}
    return re.fullmatch(shapes[kind], s, re.ASCII if kind != "config-token" else 0)


# -- the registry (stock table / name normalisation) ------------------------------------------------
REG_NAMES = ["integer", "Integer", "mytype", "MyType", "zcv.dts.wrap", "zcv.dts.Wrap", "zcv.dts.nosuch", "no such",
             "byte-size"]
_CONVS = {}


def replay_registry(v):
    import ZConfig.datatypes
    from .. import dts
    reg = ZConfig.datatypes.Registry()
    convs = {"f1": _CONVS.setdefault("f1", lambda s: ("f1", s)), "f2": _CONVS.setdefault("f2", lambda s: ("f2", s))}
    seen = {}
    for k, h in enumerate(v["hist"], 1):
        try:
            if h["op"] == "get":
                got = reg.get(h["n"])
                res = "ok"
            else:
                reg.register(h["n"], convs[h["c"]])
                got, res = None, "ok"
        except ValueError:
            got, res = None, "ValueError"
        except Exception as e:
            got, res = None, "import-failure" if isinstance(e, (ImportError, AttributeError)) else "raised " + type(e).__name__
        why = None
        if res != h["r"]:
            why = "registry: outcome of %s" % h["op"]
        elif res == "ok" and h["op"] == "get":
            # which conversion: the stock one of that name, the registered callable, or the imported object
            want = h["v"]
            if want.startswith("stock:"):
                ok = got is ZConfig.datatypes.stock_datatypes[want[6:]]
            elif want.startswith("import:"):
                ok = got is {"zcv.dts.wrap": dts.wrap, "zcv.dts.Wrap": dts.Wrap}[want[7:]]
            else:
                ok = got is convs[want]
            if not ok:
                why = "registry: conversion returned by get"
        if why:
            return {"clause": why, "input": {"operations": [[x["op"], x["n"], x["c"]] for x in v["hist"]], "failed_at": k},
                    "spec": {"r": h["r"], "v": h["v"]}, "observed": {"r": res, "v": repr(got)[:80]},
                    "class": {"clause": why}}
    return None


def registry_part(chk, quick):
    import re
    bk = re.compile(r"[a-zA-Z][-._a-zA-Z0-9]*\Z")
    stock = ["basic-key", "boolean", "byte-size", "dotted-name", "dotted-suffix", "existing-dirpath", "existing-directory",
             "existing-file", "existing-path", "float", "identifier", "inet-address", "inet-binding-address",
             "inet-connection-address", "integer", "ipaddr-or-hostname", "locale", "null", "port-number",
             "socket-address", "socket-binding-address", "socket-connection-address", "string", "string-list",
             "time-interval", "timedelta"]
    gen = ("MCStock == " + tlc.tla_value(set(stock)) + "\n"
           "MCNames == " + tlc.tla_value(set(REG_NAMES)) + "\n"
           "MCBasicKey(n) == CASE " + " [] ".join(
               "n = %s -> %s" % (tlc.tla_str(n), tlc.tla_str(n.lower() if bk.match(n) else "~bad~"))
               for n in REG_NAMES if "." not in n or True) + "\n"
           "MCIsDotted(n) == n \\in " + tlc.tla_value({n for n in REG_NAMES if "." in n}) + "\n"
           "MCResolves(n) == n \\in {\"zcv.dts.wrap\", \"zcv.dts.Wrap\"}\n")
    with open(os.path.join(tlc.SPEC_DIR, "mc", "MC_ZRegistry.tla")) as f:
        mod = f.read().replace("@GENERATED@", gen)
    cfg = flow.cfg_text(constants={"MaxOps": 3 if quick else 4, "Convs": '{"f1", "f2"}'},
                        overrides={"Stock": "MCStock", "Names": "MCNames", "BasicKey": "MCBasicKey",
                                   "IsDotted": "MCIsDotted", "Resolves": "MCResolves"},
                        invariants=["StockNeverShadowed", "GetIdempotent", "UndottedNeverImported", "Emit"],
                        properties=["FirstBindingWins"])
    flow.run_g(chk, mod, cfg, replay_registry, sample_every=4001, workers=4, timeout=900, procs=8, batch=300)


def run(chk):
    quick = chk.tier == "quick"
    chk.rule = ("per datatype: every string up to the per-type bound over the per-type alphabet (one representative per "
                "character class that type distinguishes); all distinct; non-trivial = non-empty string. Plus the product "
                "of each live regular expression with the documented automaton, and random Unicode strings for totality.")
    from ..tlc import SPEC_DIR
    import os
    with open(os.path.join(SPEC_DIR, "mc", "MC_C09_G.tla")) as f:
        template = f.read()
    bounds = {}
    for dt, (alpha, qb, tb) in PLAN.items():
        n = qb if quick else tb
        bounds[dt] = n
        v6, fl = env_sets(alpha, n, dt)
        gen = ("Alphabet == " + tlc.tla_value({enc_char(c) for c in alpha}) + "\n"
               "ExtraStrings == " + tlc.tla_value({tuple(enc_char(c) for c in x) for x in EXTRA.get(dt, []) if x}).replace("<<>>", "<< >>") + "\n"
               "MCValidV6 == " + tlc.tla_value(v6 or {"~none~"}) + "\n"
               "MCFloatOK == " + tlc.tla_value(fl or {"~none~"}) + "\n"
               "MCExtSpace == {}\nMCExtLower == " + (tlc.tla_value(ext_lower(alpha)) if ext_lower(alpha)
                                                      else "[c \\in {} |-> c]") + "\n")
        mod = template.replace("@GENERATED@", gen)
        cfg = flow.cfg_text(constants={"DT": tlc.tla_str(dt), "MaxLen": n},
                            overrides={"ValidV6": "MCValidV6", "FloatOK": "MCFloatOK"},
                            invariants=["ContractHolds", "KeysIdempotent", "Emit"])
        flow.run_g(chk, mod, cfg, replay_g, history_ok=True, nontrivial=nontrivial_g, sample_every=200003, workers=4, timeout=3000)
    chk.exhaustive = True
    chk.note("bounds", bounds)
    product_checks(chk)
    registry_part(chk, quick)
    # totality on random Unicode strings
    rng = random.Random(chk.seed * 7919 + 9)
    pool = list("aZ09 .:-_/[]$%\t") + ["é", "Ж", "٣", "　", "\x00", "\U0001F600", "ß", "١"]
    bad = 0
    import ZConfig.datatypes
    names = sorted(ZConfig.datatypes.stock_datatypes)
    for _ in range(20000 if quick else 300000):
        dt = rng.choice(names)
        if dt.startswith("existing") or dt == "locale":
            continue
        s = "".join(rng.choice(pool) for _ in range(rng.randint(0, 12)))
        got = observe(dt, s)
        chk.evaluations += 1
        allowed = {"ValueError"} | ({"TypeError"} if dt == "timedelta" else set())
        if not got["ok"] and got["exc"] not in allowed:
            chk.disagree({"clause": "totality", "input": {"datatype": dt, "text": s}, "observed": got, "direction": "V",
                          "class": {"clause": "totality", "datatype": dt, "exception": got["exc"]}})
    chk.assumptions += ["float(), socket.inet_pton, datetime.timedelta are Python, not ZConfig: their verdicts on the "
                        "enumerated strings are environment sets computed by calling them directly",
                        "int() is specified in ZDatatypes for the ASCII alphabets used (sign, underscores, white space)",
                        "existing-* and locale are exercised for totality only"]


def replay(path):
    import json
    d = json.load(open(path))
    i = d["input"]
    print(i, "now:", observe(i["datatype"], i["text"]), "spec:", d.get("spec"))
    return 0
