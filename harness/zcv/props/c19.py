"""C19 - every resource opened during a load is closed, however the load ends.

Specifications:
 * ZLoadFn/ZLoadS with the event history `ev` (open / close of the top
   resource, every included resource and every imported component), the
   unwinding of Fail, and the environment actions of a fault: ReadFault (reading
   line n of resource r raises), a datatype function or a section datatype
   that raises.  TLC checks AllClosedAtEnd, LifoClose and
   FramesAreOpenResources on every scenario x every failure point and emits
   the event history; the real load is run with the same fault injected
   (wrapped Resource / urlopen, no hooks in /repo) and its open/close sequence
   must be the specification's.
 * ZResources: the resource discipline alone (streams closed as soon as read,
   resources nested, nothing open at the end).  Every recorded event trace -
   of the configuration loads above and of schema loads over extends / import
   graphs with read faults, XML errors and schema errors in every resource -
   is validated by TLC against it.
"""
import io
import os
import random
import shutil
import urllib.request

from .. import flow, loadgen, obs, packages, project, scenario, schemas, textgen, tlc
from ..core import MachineryError
from ..schemas import ABS, K, MK, MSEC, SEC, SCHEMA, TYPE
from . import c06


def docs():
    d1 = SCHEMA(types=[TYPE("leaf", [K("bk", "boomkey"), MK("bm", "boomkey"), K("v", "integer")]),
                       TYPE("bad", [K("k1")], datatype="boom"),
                       TYPE("mid", [MSEC("leaf", "*", "leaves"), SEC("bad", "*", "b"), K("bk", "boomkey")])],
                children=[MSEC("mid", "*", "mids"), SEC("leaf", "+", "one"), MK("bm", "boomkey"), K("k0", "integer")])
    d2 = SCHEMA(types=[ABS("abs1"), TYPE("t1", [K("bk", "boomkey")], implements="abs1")],
                children=[MSEC("abs1", "*", "impls"), K("bk", "boomkey")])
    return [d1, d2]


def name_of_url(url, base):
    if isinstance(url, str) and url.startswith("package:"):
        return "pkg:" + url.split(":")[1]
    return scenario.url_to_name(url, base)


def make_loader(sch, opts):
    import ZConfig.loader
    if opts:
        from ZConfig import cmdline
        ld = cmdline.ExtendedConfigLoader(sch)
        for o in opts:
            ld.addOption(o)
        return ld
    return ZConfig.loader.ConfigLoader(sch)


def run_observed(ws, sch, rec, item, loader=None):
    import ZConfig
    base = ws.materialise(item["files"], in_place=item["meta"].get("in_place", False))
    main = os.path.join(base, item["main"])
    flt = None
    if item["meta"].get("fault"):
        fname, n = item["meta"]["fault"]
        target = "file://" + os.path.join(base, fname)
        flt = ((lambda url, t=target: url == t), n)
    with obs.Observer(fault=flt) as o:
        try:
            if loader is not None:
                cfg, _ = loader.loadURL(main)
            else:
                cfg, _ = ZConfig.loadConfig(sch, main, overrides=list(item["opts"]))
            out = {"r": "ok", "tree": project.proj_section(cfg, rec, top=True)}
        except (obs.Injected, KeyError) as e:
            out = {"r": "err", "kind": "fault", "exc": type(e).__name__}
        except Exception as e:
            out = project.exc_outcome(e)
    ev = [(k, name_of_url(u, base)) for k, u in o.events]
    return out, ev, o.all_closed()


def compare(ws, sch, rec, item, emit):
    # a failing load and the clean load after it go through ONE loader object (as an application that
    # re-reads its configuration does); every other scenario through the module-level entry point
    shared = None
    if item["twin"] is not None and emit["o"]["r"] == "err" and not item["opts"]:
        shared = make_loader(sch, item["opts"])
    got, ev, closed = run_observed(ws, sch, rec, item, loader=shared)
    want = emit["o"]
    i = str(scenario._CTX["sc"].items.index(item)) if False else None
    spec_ev = [[k, u.split("/", 1)[1] if "/" in u and not u.startswith("pkg:") else u] for k, u in emit["ev"]]
    real_ev = [[k, u] for k, u in ev if k in ("open", "close")]
    why = None
    if got["r"] != want["r"]:
        why = "accept/reject"
    elif got["r"] == "err" and (want["kind"] == "fault") != (got["kind"] == "fault"):
        why = "failure-kind"
    elif got["r"] == "err" and got["kind"].startswith("internal:"):
        why = "internal-error"
    elif not closed:
        why = "resource-object-not-closed"
    elif real_ev != spec_ev:
        why = "open/close-sequence"
    if why is None and item["twin"] is not None and want["r"] == "err":
        # a failed load leaves nothing behind: the clean twin loads as the specification says
        tw = scenario._CTX["sc"].items[item["twin"]]
        got2, _, _ = run_observed(ws, sch, rec, tw, loader=shared)
        w2 = scenario._CTX["outs"][item["twin"]]["o"]
        if got2["r"] != w2["r"] or (got2["r"] == "ok" and project.canon_section(w2["tree"]) != got2["tree"]):
            why = "failed-load-left-something-behind"
    if why is None:
        return None
    return {"clause": why, "observed": got, "observed_events": ev, "spec_events": spec_ev,
            "fault": item["meta"].get("fault") or item["meta"].get("shape"), "class": {"clause": why}}


def record_trace_special(ws, sch, item, kind, rng):
    """Configuration load with a resource that is not UTF-8 / whose URL stream fails while being read."""
    import ZConfig
    base = ws.materialise(item["files"])
    victim = rng.choice(sorted(item["files"]))
    path = os.path.join(base, victim)
    sflt = None
    if kind == "bad-utf8":
        with open(path, "ab") as f:
            f.write(b"# caf\xe9\n")
    else:
        sflt = (lambda url, t="file://" + path: url == t)
    with obs.Observer(stream_fault=sflt) as o:
        try:
            ZConfig.loadConfig(sch, os.path.join(base, item["main"]))
            res = "ok"
        except Exception as e:
            res = type(e).__name__
    ws._last = None     # the files were modified: materialise again next time
    ws.touched(base)
    ev = [[k, name_of_url(u, base)] for k, u in o.events]
    return {"events": ev or [["stream-open", "~"], ["stream-close", "~"]], "allclosed": o.all_closed(),
            "_what": {"files": item["files"], "special": kind, "victim": victim, "result": res}}


def record_trace(ws, sch, rec, item):
    got, ev, closed = run_observed(ws, sch, rec, item)
    return {"events": [list(e) for e in ev] or [["stream-open", "~"], ["stream-close", "~"]], "allclosed": closed,
            "_what": {"files": item["files"], "fault": item["meta"].get("fault")}}


# -- schema loads ----------------------------------------------------------------------
GOOD = {
    "top.xml": '<schema extends="base1.xml sub/base2.xml">\n  <import package="zcvpkg_a"/>\n'
               '  <import src="other.xml"/>\n  <section type="abs1" name="*" attribute="a"/>\n</schema>\n',
    "base1.xml": '<schema>\n  <abstracttype name="abs1"/>\n  <sectiontype name="b1"/>\n</schema>\n',
    "sub/base2.xml": '<schema extends="../base3.xml">\n  <sectiontype name="b2"/>\n</schema>\n',
    "base3.xml": '<schema>\n  <abstracttype name="abs2"/>\n  <import package="zcvpkg_c"/>\n</schema>\n',
    "other.xml": '<schema>\n  <sectiontype name="o1"/>\n</schema>\n',
}


def schema_traces(rng, n_random):
    import ZConfig
    out = []
    root = tlc.mkscratch("zcv-sch-")
    try:
        variants = [(None, None, None)]
        for f in GOOD:
            variants += [(f, "read", k) for k in (1, 2, 3)]
            variants += [(f, "xml", None), (f, "schema", None), (f, "missing", None), (f, "bad-utf8", None),
                         (f, "stream-read", None)]
        for pk in ("zcvpkg_a", "zcvpkg_c"):
            variants += [("pkg:" + pk, "read", 1), ("pkg:" + pk, "read", 2)]
        for v, (f, kind, k) in enumerate(variants):
            base = os.path.join(root, "v%d" % v)
            for name, text in GOOD.items():
                p = os.path.join(base, name)
                os.makedirs(os.path.dirname(p), exist_ok=True)
                t = text
                if f == name and kind == "xml":
                    t = text.replace("</schema>", "<oops></schema>")
                if f == name and kind == "schema":
                    t = text.replace("</schema>", '<sectiontype name="dup"/><sectiontype name="dup"/></schema>')
                if f == name and kind == "missing":
                    continue
                with open(p, "wb") as fh:
                    fh.write(t.encode("utf-8") if not (f == name and kind == "bad-utf8")
                             else t.encode("utf-8").replace(b"<schema", b"<!-- caf\xe9 --><schema", 1))
            flt = None
            if kind == "read":
                if f.startswith("pkg:"):
                    target = "package:%s:component.xml" % f[4:]
                else:
                    target = "file://" + os.path.join(base, f)
                flt = ((lambda url, t=target: url == t), k)
            sflt = None
            if kind == "stream-read":
                sflt = (lambda url, t="file://" + os.path.join(base, f): url == t)
            with obs.Observer(fault=flt, stream_fault=sflt) as o:
                try:
                    ZConfig.loadSchema(os.path.join(base, "top.xml"))
                    res = "ok"
                except Exception as e:
                    res = type(e).__name__
            ev = [[kk, name_of_url(u, base)] for kk, u in o.events]
            out.append({"events": ev or [["stream-open", "~"], ["stream-close", "~"]], "allclosed": o.all_closed(),
                        "_what": {"schema_graph_fault": [f, kind, k], "result": res}})
    finally:
        shutil.rmtree(root, ignore_errors=True)
    return out


# -- schema loads against the schema-language specification (resource events of ZSchemaLang) ----------
def schema_event_items(rng, quick):
    """Composed worlds of C10 / C11, some of their edits, x read faults in every resource."""
    from . import c10, c11
    from .. import schemadoc as sd
    out = []
    worlds = c10.composed_worlds() + c11.worlds()
    n_edits = 12 if quick else 80
    for wi, w in enumerate(worlds):
        main, files, comps = w
        variants = [("world %d" % wi, w)]
        for name in list(files) + list(comps):
            base = files[name] if name in files else comps[name]
            es = list(sd.edits(base))
            for lab, t in rng.sample(es, min(n_edits, len(es))):
                w2 = (main, dict(files), dict(comps))
                (w2[1] if name in files else w2[2])[name] = t
                variants.append(("world %d %s: %s" % (wi, name, lab), w2))
        for lab, w2 in variants:
            out.append((lab, "W", w2, None))
            if lab.count(":") == 0 or rng.random() < 0.3:
                for name in list(w2[1]) + list(w2[2]):
                    for n in (1, 2):
                        out.append((lab + " ; read %d of %s fails" % (n, name), "W", w2, (name, n)))
    return out


def replay_schema_events(v):
    from . import c10
    from .. import schemadoc as sd
    import ZConfig
    world, root = c10._W["world"], c10._W["root"]
    i = v["d"] - 1
    m = c10._W["mains"][i]
    rid = m["rid"]
    flt = None
    if m["fault"]["n"]:
        frid = m["fault"]["rid"]
        target = ("package:" + frid[4:]) if frid.startswith("pkg:") else "file://" + os.path.join(root, frid)
        # the SAX driver probes the stream with read(0) first: the specification's read 1 / 2 are reads 1 / 3
        flt = ((lambda url, t=target: url == t), 1 if m["fault"]["n"] == 1 else 3)
    with obs.Observer(fault=flt) as o:
        try:
            ZConfig.loadSchema(os.path.join(root, rid))
            res = "ok"
        except obs.Injected:
            res = "fault"
        except ZConfig.ConfigurationError:
            res = "refused"
        except Exception as e:
            res = "raised " + type(e).__name__

    def name(u):
        if isinstance(u, str) and u.startswith("package:"):
            return "pkg:" + u[len("package:"):]
        if isinstance(u, str) and u.startswith("file://"):
            return os.path.relpath(urllib.request.url2pathname(u[7:]), root)
        return str(u)
    real = [[k, name(u)] for k, u in o.events if k in ("open", "close")]
    want = [list(e) for e in v["ev"]]
    want_res = "ok" if v["ok"] else ("fault" if v["why"] == "read fault" else "refused")
    why = None
    if res.startswith("raised") and not v["any"]:
        why = "schema load: internal error"
    elif (res == "ok") != (want_res == "ok") or (res == "fault") != (want_res == "fault"):
        why = "schema load: outcome"
    elif not o.all_closed():
        why = "schema load: resource object not closed"
    elif real != want:
        why = "schema load: open/close sequence"
    if why is None and res != "ok":
        # a failed load leaves nothing behind: the SchemaLoader object that has just failed, asked again without
        # the fault, answers what a new loader answers
        import ZConfig.loader
        from .. import project

        def ask(ld):
            try:
                return "ok", project.digest_schema(ld.loadURL(os.path.join(root, rid)))
            except ZConfig.ConfigurationError:
                return "refused", None
            except Exception as e:
                return "raised " + type(e).__name__, None
        used = ZConfig.loader.SchemaLoader()
        with obs.Observer(fault=flt):
            try:
                used.loadURL(os.path.join(root, rid))
            except Exception:
                pass
        a, b = ask(used), ask(ZConfig.loader.SchemaLoader())
        if a != b:
            why = "schema load: failed-load-left-something-behind"
            res = "then %s, a new loader: %s" % (a[0], b[0])
    if why is None:
        return None
    return {"clause": why, "input": {"label": c10._W["labels"][i], "main": rid, "fault": m["fault"]},
            "spec": {"outcome": want_res, "why": v["why"], "events": want}, "observed": {"outcome": res, "events": real},
            "class": {"clause": why}}


def tally_schema(v):
    return ("accepted" if v["ok"] else "read fault" if v["why"] == "read fault" else "refused") + \
        " with %d resource(s)" % (len(v["ev"]) // 2)


def schema_events(chk, rng, quick):
    from . import c10
    items = schema_event_items(rng, quick)
    # build_batch ignores the 4th component: carry the fault in the mains after building
    orig = c10.build_batch

    def build(part, start):
        world, mains, labels = orig(part, start)
        for k, it in enumerate(part):
            if it[3] is not None:
                name, n = it[3]
                sub = "s%d" % (start + k)
                rid = ("pkg:%s:%s_%s" % (name[0], sub, name[1])) if isinstance(name, tuple) else "%s_%s" % (sub, name)
                mains[k]["fault"] = {"rid": rid, "n": n}
        return world, mains, labels
    c10.build_batch = build
    try:
        c10.run_batches(chk, items, 1200, ["AcceptIffWellFormed", "StacksBalanced", "ResourcesNested", "Emit"],
                        replay=replay_schema_events, tally=tally_schema)
    finally:
        c10.build_batch = orig
    chk.note("schema_event_scenarios", len(items))


def suite_traces(chk):
    """The repository's own test-suite as a source of executions: every loading call a test makes (schemas and
    configurations from files, URLs, packages, zip archives, with good and with broken input) is recorded by
    zcv.suite_plugin and becomes one trace of the resource discipline."""
    from .. import suite
    spans, tail = suite.run_suite()
    if spans is None:
        chk.note("suite_traces", {"spans": 0, "pytest": tail})
        return []
    traces = []
    names = {}
    for sp in spans:
        ev = []
        for k, u in sp["events"]:
            ev.append([k, names.setdefault(u, "u%d" % len(names))])
        traces.append({"events": ev or [["stream-open", "~"], ["stream-close", "~"]], "allclosed": sp["allclosed"],
                       "_what": {"test": sp["test"], "entry": sp["entry"], "ended": sp["ended"],
                                 "urls": sorted({u for _, u in sp["events"]})[:8]}})
    ended = {}
    for sp in spans:
        k = "returned" if sp["ended"] == "returned" else "raised"
        ended[k] = ended.get(k, 0) + 1
    chk.note("suite_traces", {"spans": len(traces), "tests_with_a_load": len({sp["test"] for sp in spans}),
                              "ended": ended, "with_several_resources": sum(1 for sp in spans if sp["resources"] > 1),
                              "pytest": tail})
    return traces


def loadfile_traces():
    """The entry points that take an open file and, optionally, a URL for it (ZConfig.loadConfigFile,
    ZConfig.loadSchemaFile, ConfigLoader.loadFile): the file handed over is the top resource and is closed when
    the call returns or raises - whatever the URL argument looks like."""
    import ZConfig
    import ZConfig.loader
    out = []
    root = tlc.mkscratch("zcv-lf-")
    try:
        cpath, spath, ipath = (os.path.join(root, n) for n in ("app.conf", "app.xml", "inc.conf"))
        with open(spath, "w") as f:
            f.write("<schema><key name='k'/><key name='j'/></schema>")
        with open(ipath, "w") as f:
            f.write("j 2\n")
        schema = ZConfig.loadSchema(spath)
        urls = [None, "file://" + cpath, "file://" + cpath + "#production", "http://[", "relative/name.conf",
                "file://" + cpath + "?q=1", "package:nosuch:x.conf", ""]
        for text in ("k 1\n", "k 1\n%include inc.conf\n", "nosuch 1\n", "<unclosed>\n"):
            with open(cpath, "w") as f:
                f.write(text)
            for url in urls:
                for entry in ("loadConfigFile", "ConfigLoader.loadFile", "loadSchemaFile"):
                    f = open(spath if entry == "loadSchemaFile" else cpath)
                    with obs.Observer(proxy_files=False) as o:
                        try:
                            if entry == "loadConfigFile":
                                ZConfig.loadConfigFile(schema, f, url)
                            elif entry == "ConfigLoader.loadFile":
                                ZConfig.loader.ConfigLoader(schema).loadFile(f, url)
                            else:
                                u = url.replace("app.conf", "app.xml") if url else url
                                ZConfig.loadSchemaFile(f, u)
                            res = "returned"
                        except Exception as e:
                            res = type(e).__name__
                    closed = f.closed and o.all_closed()
                    if not f.closed:
                        f.close()
                    names = {}
                    ev = [[k, names.setdefault(str(u), "u%d" % len(names))] for k, u in o.events]
                    out.append({"events": ev or [["stream-open", "~"], ["stream-close", "~"]], "allclosed": closed,
                                "_what": {"entry": entry, "url": url, "text": text, "result": res}})
    finally:
        shutil.rmtree(root, ignore_errors=True)
    return out


def validate_traces(chk, traces):
    # binding demonstration: a recorded trace with its last close event taken out must be rejected
    donor = next((t for t in traces if len(t["events"]) >= 2 and t["events"][-1][0] == "close"), None)
    if donor is not None:
        traces = list(traces) + [dict(donor, events=donor["events"][:-1], _selftest=True)]
    d = tlc.mkscratch("zcv-rtr-")
    path = os.path.join(d, "tr.json")
    verdicts = {}
    try:
        import json
        with open(path, "w") as f:
            json.dump({"traces": [{k: v for k, v in t.items() if not k.startswith("_")} for t in traces]}, f)
        cfg = flow.cfg_text(constants={"NTr": len(traces)}, invariants=["AcceptedMeansClosed", "Verdict"])
        r = tlc.run("ZResources", cfg, on_value=lambda v: verdicts.__setitem__(v["tid"], v), workers=4,
                    timeout=1800, env={"TRACE_FILE": path})
    finally:
        shutil.rmtree(d, ignore_errors=True)
    chk.add_tlc(r)
    if r.violation:
        raise MachineryError("TLC: %s\n%s" % (r.violation, r.error_text[:2000]))
    for i, t in enumerate(traces, 1):
        v = verdicts.get(i)
        clause = v["clause"] if v else "no-behaviour-of-the-specification-matches"
        if t.get("_selftest"):
            if clause == "accepted":
                raise MachineryError("ZResources accepts a trace whose last close event was removed on purpose")
            continue
        chk.evaluations += 1
        chk.traces += 1
        chk.nontrivial_count += 1
        if clause != "accepted":
            chk.disagree({"clause": clause, "direction": "V", "events": t["events"], "what": t["_what"],
                          "at_event": v and v.get("at"), "class": {"clause": clause}})


def run(chk):
    quick = chk.tier == "quick"
    rng = random.Random(chk.seed * 7919 + 19)
    root = tlc.mkscratch("zcv-pkg-")
    try:
        packages.build(root)
        dd = docs()
        sc = scenario.Scenarios(dd)
        sc.packages = packages.abstract_packages()
        from . import c12
        sc.proj_recs = c12.proj_recs(sc)
        nbase = 120 if quick else 1000
        chk.rule = ("configuration loads: random texts of two schemas (keys with a datatype that raises a non-ValueError on "
                    "one text, a section datatype that raises, abstract slot + %%import) cut into 0..3 included files "
                    "(some include targets missing), x every failure point: reading line n of resource r for all (r, n), "
                    "every position of a failing datatype value, the failing section datatype, a missing include target; "
                    "schema loads: an extends/import graph of 5 schema resources and 2 components x {read fault at the "
                    "k-th read, XML error, schema error, missing file} in every resource; non-trivial = all")
        for sid in range(len(dd)):
            rec = sc.recs[sid]
            for b in range(nbase):
                lines = [str(l) for l in textgen.Gen(rng, rec).text()]
                if sid == 1:
                    lines = ["%import zcvpkg_a"] * rng.randint(0, 2) + lines + rng.choice([[], ["<pa1 n9/>"], ["%import zcvpkg_nocomp"]])
                files = {"d/main.conf": lines}
                resolve = {}
                c = c06.cut(rng, files, rng.choice([0, 1, 2, 3]))
                if c is not None:
                    files, _, resolve = c
                    files = {k: [str(x) for x in v] for k, v in files.items() if v != ["decoy-key WRONG"]}
                clean = sc.add(sid, files, meta={"resolve": resolve, "shape": "clean"})
                real = [f for f in files]
                # read faults at every line of every resource (and one past the end)
                points = [(f, n) for f in real for n in range(1, len(files[f]) + 2)]
                if quick and len(points) > 8:
                    points = rng.sample(points, 8)
                for f, n in points:
                    sc.add(sid, files, twin=None, meta={"resolve": resolve, "fault": (f, n), "shape": "read-fault",
                                                        "clean": clean})
                # a failing datatype function at each key position of that datatype
                for f in real:
                    for k, l in enumerate(files[f]):
                        s = l.strip()
                        if s.split(" ")[0].lower() in ("bk", "bm") and len(s.split()) > 1:
                            fs = dict(files)
                            fs[f] = files[f][:k] + [l[:len(l) - len(l.lstrip())] + s.split(" ")[0] + " BOOM"] + files[f][k + 1:]
                            sc.add(sid, fs, meta={"resolve": resolve, "shape": "datatype-raises"})
                # a missing include target
                incs = [(f, k) for f in real for k, l in enumerate(files[f]) if l.strip().startswith("%include") and "$" not in l]
                if incs:
                    f, k = rng.choice(incs)
                    fs = dict(files)
                    fs[f] = files[f][:k] + ["%include nowhere.conf"] + files[f][k + 1:]
                    sc.add(sid, fs, meta={"resolve": resolve, "shape": "include-missing"})
        # include cycles: the resource opened for the second visit is refused - and closed like any other
        for files in ({"d/main.conf": ["k0 1", "%include a.conf"], "d/a.conf": ["%include sub/b.conf"],
                       "d/sub/b.conf": ["# b", "%include ../a.conf"]},
                      {"d/main.conf": ["%include main.conf"]},
                      {"d/main.conf": ["<mid>", "  %include a.conf", "</mid>"], "d/a.conf": ["bk v1", "%include a.conf"]},
                      {"d/main.conf": ["%include a.conf", "%include a.conf"], "d/a.conf": ["%include b.conf"],
                       "d/b.conf": ["%include main.conf"]}):
            # ... and the corrected configuration read again through the same loader, from the same URLs
            fixed = {k: [l for l in v if not l.strip().startswith("%include")] + ["# corrected"] for k, v in files.items()}
            clean = sc.add(0, fixed, meta={"shape": "clean", "in_place": True})
            sc.add(0, files, meta={"shape": "include-cycle", "clean": clean})
        for it in sc.items:
            if it["meta"].get("clean") is not None:
                it["twin"] = None
        outs = sc.run_spec(chk)
        # twin = the clean scenario, used on the real side only (failed load leaves nothing behind)
        for it in sc.items:
            if it["meta"].get("clean") is not None:
                it["twin"] = it["meta"]["clean"]
        scenario.replay_all(chk, sc, outs, compare)
        nfault = sum(1 for o in outs if o["o"]["r"] == "err" and o["o"]["kind"] == "fault")
        chk.note("config_scenarios", len(sc.items))
        chk.note("config_scenarios_ending_in_injected_fault", nfault)
        # the resource discipline on recorded traces
        ws = scenario.Workspace()
        try:
            traces = []
            pick = rng.sample(range(len(sc.items)), min(len(sc.items), 800 if quick else 6000))
            for i in pick:
                it = sc.items[i]
                sch = loadgen.real_schema(sc.docs[it["sid"]], sc.recs[it["sid"]])
                traces.append(record_trace(ws, sch, sc.proj_recs[it["sid"]], it))
                if it["meta"].get("shape") == "clean":
                    traces.append(record_trace_special(ws, sch, it, rng.choice(["bad-utf8", "stream-read"]), rng))
        finally:
            ws.close()
        schema_events(chk, rng, quick)
        st = schema_traces(rng, 0)
        chk.note("schema_load_traces", len(st))
        chk.note("schema_load_results", sorted({t["_what"]["result"] for t in st}))
        lf = loadfile_traces()
        chk.note("loadfile_traces", {"n": len(lf), "results": sorted({t["_what"]["result"] for t in lf})})
        validate_traces(chk, traces + st + lf + suite_traces(chk))
        k = next(i for i, o in enumerate(outs) if o["o"]["r"] == "err" and o["o"]["kind"] == "fault")
        chk.sample({"files": sc.items[k]["files"], "fault": sc.items[k]["meta"].get("fault"), "spec_events": outs[k]["ev"]})
        chk.sample({"schema_load_trace": st[3]["events"], "what": st[3]["_what"]})
    finally:
        shutil.rmtree(root, ignore_errors=True)


def replay(path):
    import json
    print(json.dumps(json.load(open(path)), indent=1)[:6000])
    return 0
