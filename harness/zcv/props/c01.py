"""C01 - a configuration is accepted iff it conforms to the schema.
(c02.py reuses explore() with the tree comparison switched on.)

Specification: spec/ZLoadFn.tla (the loader as a step function), ZConform.tla
(declarative Conforms / ValueTree), ZLoad.tla (feed machine + invariants).
G: for every schema of the generated family TLC feeds every text over the
   schema's vocabulary up to the line bound, checks AcceptIffConforms /
   TreeIsValueTree / RejectIsConfigError in every state and emits every
   terminal state; each is replayed on ZConfig.loadConfigFile.
"""
import random

from .. import flow, loadgen, schemas
from ..core import MachineryError
from .c03 import dec_line

_DOCS = []
_RECS = []
_MODE = {"tree": False}


def setup(docs):
    global _DOCS, _RECS
    _DOCS = docs
    _RECS = [schemas.valid_doc(d) for d in docs]
    if any(r is None for r in _RECS):
        raise MachineryError("generated schema document is not rule-abiding")
    # rendering precondition for every member, before any verdict
    for d, r in zip(_DOCS, _RECS):
        loadgen.real_schema(d, r)


def replay_g(v):
    i = v["sid"] - 1
    sch = loadgen.real_schema(_DOCS[i])
    lines = [dec_line(l) for l in v["txt"]]
    text = "".join(l + "\n" for l in lines)
    got, _ = loadgen.load_text(sch, text, rec=_RECS[i])
    why = loadgen.compare_outcome(v["o"], got, check_tree=_MODE["tree"])
    if why is None:
        # once more through a loader object that has served every earlier text of this schema, failed ones included
        got, _ = loadgen.load_text_reused(sch, text, rec=_RECS[i])
        why = loadgen.compare_outcome(v["o"], got, check_tree=_MODE["tree"])
        if why is not None:
            why += "-through-a-reused-loader"
    if why is None:
        return None
    return {"clause": why, "input": {"schema_xml": schemas.to_xml(_DOCS[i]), "text": text},
            "spec": v["o"], "observed": got, "unspecified": v["unspec"],
            "class": {"clause": why}}


def nontrivial_g(v):
    # non-trivial: at least two lines, or a rejection/acceptance decided by the matcher
    return True if len(v["txt"]) >= 1 else None


def explore(chk, docs, cap, maxlines, tree, timeout=3000):
    setup(docs)
    _MODE["tree"] = tree
    vocabs = [schemas.vocabulary(r, cap) for r in _RECS]
    keytab, convtab = loadgen.tables(_RECS, vocabs)
    block = loadgen.generated_block(_RECS, vocabs, keytab, convtab)
    mod = loadgen.mc_module("MC_C01_G", block)
    cfg = flow.cfg_text(constants={"MaxLines": maxlines}, overrides=loadgen.ZLOAD_OVERRIDES,
                        invariants=["ZTypeOK", "AcceptIffConforms", "TreeIsValueTree", "RejectIsConfigError", "Emit"],
                        properties=["FailureIsFinal"])
    r, n = flow.run_g(chk, mod, cfg, replay_g, nontrivial=nontrivial_g, sample_every=40009, timeout=timeout)
    chk.note("schemas", len(docs))
    chk.note("vocabulary_sizes", [len(v) for v in vocabs])
    chk.note("max_lines", maxlines)
    return r, n


def run(chk):
    quick = chk.tier == "quick"
    docs = schemas.family(chk.seed, 12 if quick else 28)
    chk.rule = ("for every schema of the family (12 hand-designed rule-interaction schemas + seeded random ones: keys, "
                "multikeys, '+' keys/multikeys with and without defaults and required, fixed/'*'/'+' sections and "
                "multisections, abstract types, derived types, key types basic-key/identifier/ipaddr-or-hostname, "
                "nesting <= 3) every text over the schema's vocabulary (declared keys in two cases, undeclared and "
                "illegal keys, convertible/unconvertible values, headers for every type x names, unknown and abstract "
                "types, closers) up to the line bound (thorough: four lines over the full vocabularies and five lines over "
                "the first twelve lines of the twelve interaction schemas) whose proper prefixes are not yet rejected; all distinct; "
                "non-trivial = at least one line")
    if quick:
        explore(chk, docs, cap=20, maxlines=4, tree=False)
    else:
        # two cuts through the space: wide vocabularies with four lines, five lines over the most useful twelve
        explore(chk, docs, cap=26, maxlines=4, tree=False)
        explore(chk, docs[:12], cap=12, maxlines=5, tree=False)
        chk.note("thorough_parts", [{"schemas": len(docs), "vocabulary": 26, "max_lines": 4},
                                    {"schemas": 12, "vocabulary": 12, "max_lines": 5}])
    chk.exhaustive = True
    chk.note("schema_digest_mismatches", len(loadgen.DIGEST_MISMATCH))
    chk.assumptions += ["key-type and datatype results on vocabulary tokens are environment tables stated by reference "
                        "conversions written from the documentation (harness/zcv/refconv.py); C09 checks the real converters",
                        "the abstract schema record equals what the real parser builds from the rendered XML "
                        "(checked by digest before any verdict)"]


def replay(path):
    import json
    import io
    import ZConfig
    with open(path) as f:
        d = json.load(f)
    sch = ZConfig.loadSchemaFile(io.StringIO(d["input"]["schema_xml"]))
    got, _ = loadgen.load_text(sch, d["input"]["text"])
    print(d["input"]["schema_xml"])
    print(repr(d["input"]["text"]))
    print("now   :", got)
    print("spec  :", d["spec"])
    return 0
