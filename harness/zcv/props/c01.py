"""C01 - a configuration is accepted iff it conforms to the schema.
(c02.py reuses explore() with the tree comparison switched on.)

Specification: spec/ZLoadFn.tla (the loader as a step function), ZConform.tla
(declarative Conforms / ValueTree), ZLoad.tla (feed machine + invariants).
G: for every schema of the generated family TLC feeds every text over the
   schema's vocabulary up to the line bound, checks AcceptIffConforms /
   TreeIsValueTree / RejectIsConfigError in every state and emits every
   terminal state; each is replayed on ZConfig.loadConfigFile.
"""
import random

from .. import flow, loadgen, schemas
from ..core import MachineryError
from .c03 import dec_line

_DOCS = []
_RECS = []
_MODE = {"tree": False}


def setup(docs):
    global _DOCS, _RECS
    _DOCS = docs
    _RECS = [schemas.valid_doc(d) for d in docs]
    if any(r is None for r in _RECS):
        raise MachineryError("generated schema document is not rule-abiding")
    # rendering precondition for every member, before any verdict
    for d, r in zip(_DOCS, _RECS):
        loadgen.real_schema(d, r)


def replay_g(v):
    i = v["sid"] - 1
    sch = loadgen.real_schema(_DOCS[i])
    lines = [dec_line(l) for l in v["txt"]]
    text = "".join(l + "\n" for l in lines)
    got, _ = loadgen.load_text(sch, text, rec=_RECS[i])
    why = loadgen.compare_outcome(v["o"], got, check_tree=_MODE["tree"])
    if why is None:
        # once more through a loader object that has served every earlier text of this schema, failed ones included
        got, _ = loadgen.load_text_reused(sch, text, rec=_RECS[i])
        why = loadgen.compare_outcome(v["o"], got, check_tree=_MODE["tree"])
        if why is not None:
            why += "-through-a-reused-loader"
    last = lines[-1].strip() if lines else ""
    if (why is None and v["o"]["r"] == "err" and v["o"].get("why") != "unclosed sections not allowed"
            and v["o"].get("line") == len(lines) and last.startswith("<") and not last.startswith("</")
            and last.endswith(">") and not last.endswith("/>")):
        # the feed machine stops at the first refused line, so a text whose last line is a section header that the
        # specification refuses ends there and would fail on the code anyway ("unclosed section"): a refusal is
        # final, so the same text with every open section closed must be refused as well - a header the code
        # wrongly lets in shows here
        closers = open_sections(lines)
        if closers:
            text2 = text + "".join(c + "\n" for c in closers)
            got, _ = loadgen.load_text(sch, text2, rec=_RECS[i])
            if got["r"] == "ok":
                why = "accepts-a-refused-text-once-its-sections-are-closed"
                text = text2
    if why is None:
        return None
    return {"clause": why, "input": {"schema_xml": schemas.to_xml(_DOCS[i]), "text": text},
            "spec": v["o"], "observed": got, "unspecified": v["unspec"],
            "class": {"clause": why}}


def open_sections(lines):
    """Closing lines for the sections a text leaves open, innermost first."""
    stack = []
    for l in lines:
        t = l.strip()
        if t.startswith("</"):
            if stack:
                stack.pop()
        elif t.startswith("<") and t.endswith(">") and not t.endswith("/>"):
            body = t[1:-1].split()
            if body:
                stack.append(body[0])
    return ["</%s>" % t for t in reversed(stack)]


def nontrivial_g(v):
    # non-trivial: at least two lines, or a rejection/acceptance decided by the matcher
    return True if len(v["txt"]) >= 1 else None


def explore(chk, docs, cap, maxlines, tree, timeout=3000):
    setup(docs)
    _MODE["tree"] = tree
    vocabs = [schemas.vocabulary(r, cap) for r in _RECS]
    keytab, convtab = loadgen.tables(_RECS, vocabs)
    block = loadgen.generated_block(_RECS, vocabs, keytab, convtab)
    mod = loadgen.mc_module("MC_C01_G", block)
    cfg = flow.cfg_text(constants={"MaxLines": maxlines}, overrides=loadgen.ZLOAD_OVERRIDES,
                        invariants=["ZTypeOK", "AcceptIffConforms", "TreeIsValueTree", "RejectIsConfigError", "Emit"],
                        properties=["FailureIsFinal"])
    r, n = flow.run_g(chk, mod, cfg, replay_g, nontrivial=nontrivial_g, sample_every=40009, timeout=timeout, workers=10)
    chk.note("schemas", len(docs))
    chk.note("vocabulary_sizes", [len(v) for v in vocabs])
    chk.note("max_lines", maxlines)
    return r, n


# -- whole texts: long, deeply nested, beyond the line bound of the feed machine -------------------
def compare_deep(ws, sch, rec, item, emit):
    from .. import scenario
    want = emit["o"]
    got, _ = scenario.run_real(ws, sch, rec, item)
    why = loadgen.compare_outcome(want, got, check_tree=_MODE["tree"])
    if why is None:
        text = "".join(str(l) + "\n" for l in item["files"][item["main"]])
        got, _ = loadgen.load_text_reused(sch, text, rec=rec)
        why = loadgen.compare_outcome(want, got, check_tree=_MODE["tree"])
        if why is not None:
            why += "-through-a-reused-loader"
    if why is None:
        return None
    return {"clause": "deep: " + why, "observed": got, "class": {"clause": why}}


def stress_texts(rng, rec, gen_text):
    """Texts built around one conforming text: the things only several lines deep inside nested sections
    can show (an inner section's bookkeeping meeting the outer one's)."""
    from .. import textgen
    L = textgen.Line
    out = []
    lines = list(gen_text)
    opens = [i for i, l in enumerate(lines) if getattr(l, "info", None) and l.info.get("role") == "open"]
    closes = [i for i, l in enumerate(lines) if getattr(l, "info", None) and l.info.get("role") == "close"]
    keys = [i for i, l in enumerate(lines) if getattr(l, "info", None) and l.info.get("role") == "key"]
    if opens:
        # a whole section (header .. closer) once more right after itself: name reuse / a single slot filled twice,
        # revealed only when the copy closes
        i = rng.choice(opens)
        depth = 0
        j = i
        while j < len(lines):
            r = lines[j].info.get("role") if getattr(lines[j], "info", None) else None
            if r == "open":
                depth += 1
            elif r == "close":
                depth -= 1
                if depth == 0:
                    break
            j += 1
        if j < len(lines):
            block = lines[i:j + 1]
            out.append(lines[:j + 1] + block + lines[j + 1:])
            # ... and the copy under another name (legal for multisections, a second instance for single slots)
            hdr = str(block[0])
            if " " in hdr.strip()[1:-1]:
                renamed = L(hdr.rstrip()[:-1] + "x>", **block[0].info)
                out.append(lines[:j + 1] + [renamed] + block[1:] + lines[j + 1:])
            # the section emptied of its content: required items revealed at the closer
            out.append(lines[:i + 1] + lines[j:])
            # the body moved out of the section into its container
            out.append(lines[:i] + lines[i + 1:j] + lines[j + 1:] + [lines[i], lines[j]])
    if keys:
        # a key line moved to the very end of the text (top level) and to the very beginning
        i = rng.choice(keys)
        out.append(lines[:i] + lines[i + 1:] + [L(str(lines[i]).strip(), **lines[i].info)])
        out.append([L(str(lines[i]).strip(), **lines[i].info)] + lines[:i] + lines[i + 1:])
        # the same key three times in a row (the third item of a kind)
        out.append(lines[:i + 1] + [lines[i], lines[i]] + lines[i + 1:])
    if closes:
        # a closer dropped / doubled deep inside
        i = rng.choice(closes)
        out.append(lines[:i] + lines[i + 1:])
        out.append(lines[:i + 1] + [lines[i]] + lines[i + 1:])
    if len(opens) >= 2:
        # two closers exchanged (crossing sections)
        a, b = sorted(rng.sample(closes, 2)) if len(closes) >= 2 else (None, None)
        if a is not None and str(lines[a]).strip() != str(lines[b]).strip():
            sw = list(lines)
            sw[a], sw[b] = sw[b], sw[a]
            out.append(sw)
    return out


def deep(chk, docs, ntext, tree, maxdepth=4, timeout=3000, compare=None):
    """Random whole texts (conforming generator, structural stress, line-level damage) for every schema of
    the family: TLC runs the scenario machine ZLoadS on each with AcceptIffConforms2 / TreeIsValueTree2 as
    invariants; every scenario is executed on the code (fresh loader and long-lived loader)."""
    from .. import scenario, textgen
    _MODE["tree"] = tree
    rng = random.Random(chk.seed * 6151 + (2 if tree else 1))
    sc = scenario.Scenarios(docs)
    for sid, rec in enumerate(sc.recs):
        vocab = schemas.vocabulary(rec, 40)
        for t in range(ntext):
            base = textgen.Gen(rng, rec, maxdepth=maxdepth, slash_names=True).text()
            cands = [base]
            if t % 3 == 0:
                cands += stress_texts(rng, rec, base)
            if t % 2 == 1:
                cands.append(textgen.damage(rng, base, vocab, rng.choice([1, 1, 2, 3])))
            for lines in cands:
                sc.add(sid, {"d/main.conf": lines}, meta={"nlines": len(lines)})
    outs = sc.run_spec(chk, invariants=["AcceptIffConforms2", "TreeIsValueTree2"], timeout=timeout)
    acc = 0
    depths = {}
    for it, o in zip(sc.items, outs):
        lines = it["files"]["d/main.conf"]
        d = mx = 0
        for l in lines:
            s = str(l).strip()
            if s.startswith("</"):
                d -= 1
            elif s.startswith("<") and not s.endswith("/>"):
                d += 1
                mx = max(mx, d)
        it["meta"]["nontrivial"] = len(lines) > 5 or mx >= 2      # out of reach of the feed machine's line bound
        acc += o["o"]["r"] == "ok"
        depths[mx] = depths.get(mx, 0) + 1
    scenario.replay_all(chk, sc, outs, compare or compare_deep)
    k = max(range(len(sc.items)), key=lambda i: (outs[i]["o"]["r"] == "ok", len(sc.items[i]["files"]["d/main.conf"])))
    chk.sample({"deep_text": [str(l) for l in sc.items[k]["files"]["d/main.conf"]], "spec": outs[k]["o"]["r"]})
    chk.note("deep", {"scenarios": len(sc.items), "accepted_by_spec": acc,
                      "max_lines": max(len(it["files"]["d/main.conf"]) for it in sc.items),
                      "by_nesting_depth": {str(k): v for k, v in sorted(depths.items())}})


def run(chk):
    quick = chk.tier == "quick"
    docs = schemas.family(chk.seed, 9 if quick else 28)
    chk.rule = ("for every schema of the family (14 hand-designed rule-interaction schemas + seeded random ones: keys, "
                "multikeys, '+' keys/multikeys with and without defaults and required, fixed/'*'/'+' sections and "
                "multisections, abstract types, derived types, key types basic-key/identifier/ipaddr-or-hostname, "
                "nesting <= 3) every text over the schema's vocabulary (declared keys in two cases, undeclared and "
                "illegal keys, convertible/unconvertible values, headers for every type x names, unknown and abstract "
                "types, closers) up to the line bound (thorough: four lines over the full vocabularies and five lines over "
                "the first twelve lines of the twelve interaction schemas) whose proper prefixes are not yet rejected; all distinct; "
                "non-trivial = at least one line")
    deep(chk, docs, 36 if quick else 400, tree=False)
    if quick:
        explore(chk, docs, cap=20, maxlines=4, tree=False)
    else:
        # two cuts through the space: wide vocabularies with four lines, five lines over the most useful twelve
        explore(chk, docs, cap=26, maxlines=4, tree=False)
        explore(chk, docs[:12], cap=12, maxlines=5, tree=False)
        chk.note("thorough_parts", [{"schemas": len(docs), "vocabulary": 26, "max_lines": 4},
                                    {"schemas": 12, "vocabulary": 12, "max_lines": 5}])
    chk.exhaustive = True
    chk.note("schema_digest_mismatches", len(loadgen.DIGEST_MISMATCH))
    chk.assumptions += ["key-type and datatype results on vocabulary tokens are environment tables stated by reference "
                        "conversions written from the documentation (harness/zcv/refconv.py); C09 checks the real converters",
                        "the abstract schema record equals what the real parser builds from the rendered XML "
                        "(checked by digest before any verdict)"]


def replay(path):
    import json
    import io
    import ZConfig
    with open(path) as f:
        d = json.load(f)
    sch = ZConfig.loadSchemaFile(io.StringIO(d["input"]["schema_xml"]))
    got, _ = loadgen.load_text(sch, d["input"]["text"])
    print(d["input"]["schema_xml"])
    print(repr(d["input"]["text"]))
    print("now   :", got)
    print("spec  :", d["spec"])
    return 0
