"""C20 - logger sections produce exactly the configured logging setup, once.

Specification: spec/ZLogger.tla (level table and handler choice, operational
vs documented table; what may follow the acceptance of a format) and
spec/ZLoggerLife.tla (life cycle: memoising factories, loggers shared by name,
reopen registry; CallFactory / Reopen / CloseAll / DropRef).
G (a): TLC checks LevelContract / HandlerContract for every level token
   (names, integers -2..52, junk) and every combination of the logfile options
   and emits the results; replayed on real <eventlog> / <logfile> sections
   (level names in three letter cases).
G (b): for every configuration of a generated set (1..3 logger / eventlog
   sections, same-name loggers, 0..3 handlers over STDOUT / STDERR / plain /
   size-rotated / timed-rotated files x delay) TLC explores every sequence of
   MaxOps operations, checks the registry / idempotence / ordering invariants
   and emits the history with the observable state after each operation; the
   harness loads the real configuration, performs the operations and compares
   logger name / level / propagate, handler classes, levels, stream state and
   registry membership after each one.
V (c): format strings enumerated over the tokens of all four styles, with and
   without arbitrary-fields: load, build the formatter, format an ordinary
   record; TLC validates each recorded life against FormatClause (a format
   accepted with arbitrary-fields off must build and format, and render what
   Python's own mini-language renders).
"""
import gc
import io
import itertools
import json
import logging
import os
import random
import shutil
import string
import sys
import tempfile

from .. import flow, tlc
from ..core import MachineryError

SCHEMA = '''<schema>
  <import package="ZConfig.components.logger"/>
  <section type="eventlog" name="*" attribute="eventlog"/>
  <multisection type="logger" name="*" attribute="loggers"/>
  <multisection type="ZConfig.logger.handler" name="*" attribute="handlers"/>
</schema>'''
_S = {}
_W = {"root": None, "cfgs": None}


def schema():
    import ZConfig
    if "s" not in _S:
        _S["s"] = ZConfig.loadSchemaFile(io.StringIO(SCHEMA))
    return _S["s"]


def reset_logging(names=()):
    from ZConfig.components.logger import loghandler
    for n in set(names) | {""}:
        lg = logging.getLogger(n or None)
        for h in list(lg.handlers):
            lg.removeHandler(h)
            try:
                h.close()
            except Exception:
                pass
        lg.setLevel(logging.WARNING if not n else logging.NOTSET)
        lg.propagate = True
    if isinstance(getattr(loghandler, "_reopenable_handlers", None), list):
        del loghandler._reopenable_handlers[:]


def load(text):
    import ZConfig
    try:
        cfg, _ = ZConfig.loadConfigFile(schema(), io.StringIO(text))
        return cfg, None
    except Exception as e:
        return None, e


# -- (a) -------------------------------------------------------------------------------------------
def spellings(n):
    return sorted({n, n.upper(), n.capitalize()})


def replay_a(v):
    x = v["x"]
    if v["what"] == "level":
        if x["k"] == "name":
            texts = spellings(x["n"]) if x["n"] else []
        elif x["k"] == "int":
            texts = [str(x["v"])]
        else:
            texts = ["5.5", "1e1", "lo ud", "0x10"]
        for t in texts:
            cfg, err = load("<eventlog>\n  level %s\n</eventlog>\n" % t)
            got = {"ok": err is None}
            try:
                if err is None:
                    lg = cfg.eventlog()
                    got["v"] = lg.level
                    got["root"] = lg is logging.getLogger()
            finally:
                reset_logging()
            want = v["r"]
            why = None
            if got["ok"] != want["ok"]:
                why = "level: accept/reject"
            elif got["ok"] and (got["v"] != want["v"] or not got["root"]):
                why = "level: value"
            if why:
                return {"clause": why, "input": {"level": t}, "spec": want, "observed": got,
                        "error": repr(err)[:200] if err else None, "class": {"clause": why}}
        return None
    root = _W["root"]
    path = x["path"] if x["path"] != "file" else os.path.join(root, "a-%d.log" % os.getpid())
    lines = ["<logfile>", "  path %s" % path]
    if x["max"]:
        lines.append("  max-size 1kb")
    if x["old"]:
        lines.append("  old-files 2")
    if x["interval"]:
        lines.append("  interval 3")
    if x["when"]:
        lines.append("  when %s" % x["when"])
    if x["enc"]:
        lines.append("  encoding %s" % x["enc"])
    if x["delay"]:
        lines.append("  delay true")
    lines.append("</logfile>")
    cfg, err = load("\n".join(lines) + "\n")
    got = "refused"
    h = None
    try:
        if err is None:
            try:
                h = cfg.handlers[0]()
                got = classify(h)
                if got == "file-like-mismatch":
                    pass
            except Exception as e:
                got = "factory raised " + type(e).__name__
    finally:
        if h is not None:
            try:
                h.close()
            except Exception:
                pass
        reset_logging()
    if got == "stream":
        got = "stream-out" if h.stream is sys.stdout else "stream-err" if h.stream is sys.stderr else "stream-?"
    if got != v["c"]:
        return {"clause": "handler-choice", "input": {"section": lines}, "spec": v["c"], "observed": got,
                "error": repr(err)[:200] if err else None, "class": {"clause": "handler-choice"}}
    return None


def classify(h):
    import logging.handlers
    from ZConfig.components.logger import loghandler
    if isinstance(h, logging.NullHandler):
        return "null"
    if isinstance(h, logging.handlers.SysLogHandler):
        return "syslog"
    if isinstance(h, logging.handlers.HTTPHandler):
        return "http"
    if isinstance(h, logging.handlers.SMTPHandler):
        return "smtp"
    if isinstance(h, logging.handlers.TimedRotatingFileHandler):
        return "timed" if isinstance(h, loghandler.TimedRotatingFileHandler) else "timed(not ZConfig's)"
    if isinstance(h, logging.handlers.RotatingFileHandler):
        return "rot" if isinstance(h, loghandler.RotatingFileHandler) else "rot(not ZConfig's)"
    if isinstance(h, logging.FileHandler):
        return "file" if isinstance(h, loghandler.FileHandler) else "file(not ZConfig's)"
    if isinstance(h, logging.StreamHandler):
        return "stream"
    return type(h).__name__


# -- (b) -------------------------------------------------------------------------------------------
def configs(rng, n_random):
    """Configurations: sequences of logger sections."""
    def hs(*specs):
        return [{"cls": c, "level": l, "delay": d} for c, l, d in specs]

    def sec(kind, name, level, prop, handlers):
        return {"kind": kind, "name": name, "level": level, "prop": prop, "hs": handlers}
    out = [
        [sec("eventlog", "", 30, True, hs(("file", 10, False), ("stream", 0, False)))],
        [sec("logger", "zcv.a", 10, False, hs(("rot", 20, False), ("timed", 0, True), ("file", 5, True)))],
        [sec("logger", "zcv.a", 20, True, []), sec("eventlog", "", 0, True, hs(("file", 0, False)))],
        [sec("logger", "zcv.a", 20, True, hs(("file", 0, False))),
         sec("logger", "zcv.a", 40, False, hs(("stream", 30, False), ("rot", 0, True)))],
        [sec("logger", "zcv.a", 1, True, hs(("timed", 50, False))), sec("logger", "zcv.b", 15, False, hs(("file", 0, True))),
         sec("eventlog", "", 50, True, [])],
        [sec("logger", "", 25, False, hs(("file", 7, False)))],
        # handler sections without a file: one handler each, in order, never in the reopen registry
        [sec("logger", "zcv.a", 10, True, hs(("syslog", 30, False), ("file", 0, False), ("http", 20, False),
                                             ("smtp", 40, False)))],
        [sec("eventlog", "", 20, True, hs(("smtp", 50, False), ("rot", 10, True))),
         sec("logger", "zcv.b", 5, False, hs(("http", 0, False), ("syslog", 15, False)))],
    ]
    classes = ["stream", "file", "rot", "timed", "syslog", "http", "smtp"]
    while len(out) < 8 + n_random:
        n = rng.randint(1, 3)
        c = []
        for i in range(n):
            kind = rng.choice(["eventlog", "logger", "logger"])
            name = "" if kind == "eventlog" else rng.choice(["zcv.a", "zcv.b", "zcv.a.sub"])
            c.append(sec(kind, name, rng.choice([0, 5, 10, 20, 30, 50]), rng.random() < 0.5,
                         hs(*[(rng.choice(classes), rng.choice([0, 10, 40]), rng.random() < 0.4)
                              for _ in range(rng.randint(0, 3))])))
        if sum(1 for s in c if s["kind"] == "eventlog") <= 1 and c not in out:
            out.append(c)
    return out


def config_text(cfg, root):
    lines = []
    k = 0
    for s in cfg:
        lines.append("<%s>" % s["kind"])
        if s["kind"] == "logger":
            if s["name"]:
                lines.append("  name %s" % s["name"])
            lines.append("  propagate %s" % ("yes" if s["prop"] else "no"))
        lines.append("  level %d" % s["level"])
        for h in s["hs"]:
            k += 1
            if h["cls"] in ("syslog", "http", "smtp"):
                tag = {"syslog": "syslog", "http": "http-logger", "smtp": "email-notifier"}[h["cls"]]
                lines.append("  <%s>" % tag)
                if h["cls"] == "syslog":
                    lines += ["    facility local%d" % (k % 8), "    address localhost:%d" % (5140 + k)]
                elif h["cls"] == "http":
                    lines += ["    url http://localhost:%d/log%d" % (8000 + k, k), "    method %s" % ("POST" if k % 2 else "GET")]
                else:
                    lines += ["    from zcv%d@example.invalid" % k, "    to a%d@example.invalid" % k,
                              "    to b%d@example.invalid" % k, "    subject note %d" % k]
                lines.append("    level %d" % h["level"])
                lines.append("  </%s>" % tag)
                continue
            lines.append("  <logfile>")
            if h["cls"] == "stream":
                lines.append("    path %s" % ("STDOUT" if k % 2 else "STDERR"))
            else:
                lines.append("    path %s" % os.path.join(root, "h%d.log" % k))
                if h["cls"] == "rot":
                    lines += ["    max-size 1kb", "    old-files 2"]
                if h["cls"] == "timed":
                    lines += ["    when D", "    old-files 2"]
                if h["delay"]:
                    lines.append("    delay true")
            lines.append("    level %d" % h["level"])
            lines.append("  </logfile>")
        lines.append("</%s>" % s["kind"])
    return "\n".join(lines) + "\n"


def stream_open(h):
    s = getattr(h, "stream", None)
    if isinstance(h, logging.NullHandler):
        return False
    if s is None:
        return False
    return not getattr(s, "closed", False)


def observe(cfg, ids, names):
    """The real state in the specification's vocabulary.  ids: list of handler objects (or None when dropped),
    index = spec id - 1."""
    from ZConfig.components.logger import loghandler
    idx = {id(h): i + 1 for i, h in enumerate(ids) if h is not None}
    loggers = {}
    for n in names:
        lg = logging.getLogger(n or None)
        loggers[n] = {"level": lg.level, "prop": bool(lg.propagate),
                      "hs": [idx.get(id(h), "unknown:" + type(h).__name__) for h in lg.handlers]}
    hs = []
    for h in ids:
        if h is None:
            hs.append({"alive": False})
        else:
            c = classify(h)
            hs.append({"cls": c, "level": h.level, "open": stream_open(h), "alive": True})
    # the registry of reopenable handlers is module-private: when it is not where it used to be, what
    # reopenFiles()/closeFiles() do to the handlers is still observed, the registry itself is not
    reg = None
    if isinstance(getattr(loghandler, "_reopenable_handlers", None), list):
        reg = []
        for wr in loghandler._reopenable_handlers:
            h = wr() if callable(wr) else wr
            reg.append(idx.get(id(h), "dead" if h is None else "unknown"))
    return {"loggers": loggers, "handlers": hs, "reg": reg}


def expected_obs(o):
    loggers = o["loggers"] if isinstance(o["loggers"], dict) else {}
    hs = []
    for h in o["handlers"]:
        if not h["alive"]:
            hs.append({"alive": False})
        else:
            hs.append({"cls": h["cls"], "level": h["level"], "open": h["open"], "alive": True})
    return {"loggers": {n: {"level": l["level"], "prop": l["prop"], "hs": list(l["hs"])} for n, l in loggers.items()},
            "handlers": hs, "reg": list(o["reg"])}


def replay_b(v):
    cfgspec = v["cfg"]
    root = os.path.join(_W["root"], "b%d" % os.getpid())
    shutil.rmtree(root, ignore_errors=True)
    os.makedirs(root)
    names = sorted({s["name"] for s in cfgspec})
    reset_logging(names)
    text = config_text(cfgspec, root)
    cfg, err = load(text)
    if err is not None:
        reset_logging(names)
        shutil.rmtree(root, ignore_errors=True)
        return {"clause": "configuration refused", "input": {"text": text}, "observed": repr(err)[:300],
                "class": {"clause": "configuration refused"}}
    # logger factories in section order: the eventlog section (if any) and the logger sections, by file order
    facts = []
    li = 0
    for s in cfgspec:
        if s["kind"] == "eventlog":
            facts.append(cfg.eventlog)
        else:
            facts.append(cfg.loggers[li])
            li += 1
    ids = []
    made = {}
    bad = None
    step = 0
    try:
        for step, ent in enumerate(v["hist"], 1):
            op = ent["op"]
            if op["o"] == "call":
                f = op["f"]
                before = set(id(h) for h in ids if h is not None)
                lg = facts[f - 1]()
                if f in made:
                    if lg is not made[f]:
                        bad = "second call returned another logger"
                        break
                else:
                    made[f] = lg
                    if lg is not logging.getLogger(cfgspec[f - 1]["name"] or None):
                        bad = "factory returned a logger of another name"
                        break
                    hf = facts[f - 1].handler_factories
                    new = [x() for x in hf] if hf else [h for h in lg.handlers if id(h) not in before
                                                        and isinstance(h, logging.NullHandler)][-1:]
                    ids += new
            elif op["o"] == "reopen":
                from ZConfig.components.logger import loghandler
                loghandler.reopenFiles()
            elif op["o"] == "closeall":
                from ZConfig.components.logger import loghandler
                loghandler.closeFiles()
            elif op["o"] == "closeone":
                ids[op["h"] - 1].close()
            elif op["o"] == "drop":
                h = ids[op["h"] - 1]
                for n in names:
                    logging.getLogger(n or None).removeHandler(h)
                for fct in facts:
                    for hfac in (fct.handler_factories or []):
                        if getattr(hfac, "instance", None) is h:
                            hfac.instance = None        # the application lets go of the factory's product
                ids[op["h"] - 1] = None
                lg = new = None
                del h
                gc.collect()
            got = observe(cfg, ids, names)
            want = expected_obs(ent["obs"])
            # loggers no factory has been called for are the logging package's own business
            got["loggers"] = {n: l for n, l in got["loggers"].items() if n in want["loggers"]}
            if got["reg"] is None:
                want["reg"] = None
            if got != want:
                bad = "state after %s" % op["o"]
                break
        if (bad is None and all(sec["kind"] == "logger" for sec in cfgspec)
                and [e["op"] for e in v["hist"][:len(cfgspec)]] == [{"o": "call", "f": k + 1, "h": 0} for k in range(len(cfgspec))]
                and len(v["hist"]) >= len(cfgspec)):
            # the same text through ZConfig.configureLoggers - twice, with the logging set-up taken down in between:
            # each time every configured logger comes out as after calling its factories in order on a new load
            import ZConfig
            want = expected_obs(v["hist"][len(cfgspec) - 1]["obs"])
            exp = {n: {"level": l["level"], "prop": l["prop"],
                       "hs": [(want["handlers"][h - 1]["cls"], want["handlers"][h - 1]["level"]) for h in l["hs"]]}
                   for n, l in want["loggers"].items()}
            ids = []
            cfg = facts = made = None
            for attempt in (1, 2):
                reset_logging(names)
                gc.collect()
                ZConfig.configureLoggers(text)
                seen = {}
                for n in exp:
                    lg = logging.getLogger(n or None)
                    seen[n] = {"level": lg.level, "prop": bool(lg.propagate),
                               "hs": [(classify(h), h.level) for h in lg.handlers]}
                if seen != exp:
                    bad = "configureLoggers, call %d" % attempt
                    step = len(cfgspec)
                    break
        if bad is None:
            return None
        return {"clause": bad, "input": {"text": text, "ops": [e["op"] for e in v["hist"]], "failed_at": step},
                "spec": expected_obs(v["hist"][step - 1]["obs"]) if step else None,
                "observed": observe(cfg, ids, names),
                "class": {"clause": bad.split(" after ")[0], "op": v["hist"][step - 1]["op"]["o"] if step else ""}}
    finally:
        ids = []
        cfg = facts = made = None
        reset_logging(names)
        gc.collect()
        shutil.rmtree(root, ignore_errors=True)


def nontrivial_b(v):
    return True if any(e["op"]["o"] != "call" for e in v["hist"]) else None


# -- (c) -------------------------------------------------------------------------------------------
TOKENS = {
    "classic": ["%(message)s", "%(levelno)d", "%(asctime)s", "%(msecs)03d", "%(unknown)s", "%%", "%s", "%(name)",
                "text ", "%(levelname)-8s", "%(created)f", "%(thread)x", "%(levelno)s", "%(message)d", "%(process)5d",
                "%(funcName)r"],
    "format": ["{message}", "{levelno:d}", "{unknown}", "{}", "{0}", "{{}}", "{message!r}", "{asctime:>30}",
               "{levelno:s}", "text ", "{msecs:.1f}", "{name", "{levelname:<8}", "{created:e}", "{message:d}"],
    "template": ["$message", "${message}", "$$$$", "$unknown", "${unknown}", "$$ ", "${", "$asctime", "${asctime}",
                 "text ", "$levelno", "$1"],
    "safe-template": ["$message", "${message}", "$$$$", "$unknown", "${unknown}", "$$ ", "${", "$asctime", "${asctime}",
                      "text ", "$levelno", "$1"],
}


def ordinary_record():
    r = logging.LogRecord("zcv.fmt", logging.WARNING, "/x/y.py", 12, "msg %s", ("arg",), None, "fn")
    r.created = 1700000000.25
    r.msecs = 250.0
    r.relativeCreated = 10.5
    r.thread = 255
    r.process = 4242
    return r


def reference_render(style, fmt, dateformat):
    """What Python's own mini-language renders for the record (environment)."""
    import time
    r = ordinary_record()
    r.message = r.getMessage()
    r.asctime = time.strftime(dateformat, time.localtime(r.created))
    # ZConfig rewrites the escapes \\n \\t ... in the format: the tokens contain none
    d = r.__dict__
    if style == "classic":
        return fmt % d
    if style == "format":
        return string.Formatter().vformat(fmt, (), d)
    if style == "template":
        return string.Template(fmt).substitute(d)
    return string.Template(fmt).safe_substitute(d)


def record_c(style, arb, fmt):
    # '$' is the substitution character of configuration text: written as '$$'
    text = ("<logfile>\n  path STDOUT\n  style %s\n  arbitrary-fields %s\n  format %s\n</logfile>\n"
            % (style, "true" if arb else "false", fmt.replace("$", "$$")))
    rec = {"arb": arb, "load": "ok", "build": "-", "fmt": "-", "out": "", "ref": "", "_style": style, "_fmt": fmt}
    cfg, err = load(text)
    if err is not None:
        rec["load"] = "refused"
        rec["_err"] = repr(err)[:200]
        return rec
    h = None
    try:
        try:
            h = cfg.handlers[0]()
            rec["build"] = "ok"
        except Exception as e:
            rec["build"] = "raised"
            rec["_err"] = repr(e)[:200]
            return rec
        try:
            rec["out"] = h.format(ordinary_record())
            rec["fmt"] = "ok"
        except Exception as e:
            rec["fmt"] = "raised"
            rec["_err"] = repr(e)[:200]
            return rec
        if style == "classic" and "%s" in fmt.replace("%%", ""):
            rec["ref"] = rec["out"]       # '%s' renders the whole record dictionary: nothing to compare
            return rec
        try:
            rec["ref"] = reference_render(style, fmt.strip(), "%Y-%m-%dT%H:%M:%S")
        except Exception as e:
            rec["ref"] = "~reference raised %s~" % type(e).__name__
        return rec
    finally:
        if h is not None:
            try:
                h.close()
            except Exception:
                pass
        reset_logging()


def describe_c(i, rec, clause, v):
    return {"clause": clause, "input": {"style": rec["_style"], "format": rec["_fmt"], "arbitrary_fields": rec["arb"]},
            "observed": {k: rec[k] for k in ("load", "build", "fmt", "out", "ref")}, "error": rec.get("_err"),
            "class": {"clause": clause, "style": rec["_style"],
                      "fieldless": not any(c in rec["_fmt"].replace("%%", "").replace("$$", "").replace("{{", "")
                                           for c in ("%(", "{", "$"))}}


# -- driver --------------------------------------------------------------------------------------------
def run(chk):
    quick = chk.tier == "quick"
    chk.rule = ("(a) every level token (11 names x 3 letter cases, 3 non-names, integers -2..52, junk) and all 192 "
                "combinations of the logfile options; (b) every sequence of MaxOps operations {call factory f, reopen, "
                "close all, drop handler h} on every configuration of the generated set; (c) every sequence of <= 2 (quick) "
                "/ 3 format tokens per style x arbitrary-fields; non-trivial: (b) a sequence with an operation other "
                "than calling a factory, (a)/(c) every case")
    root = tempfile.mkdtemp(prefix="zcv-c20-", dir="/dev/shm" if os.path.isdir("/dev/shm") else tlc.scratch_root())
    _W["root"] = root
    try:
        with open(os.path.join(tlc.SPEC_DIR, "mc", "MC_C20_A.tla")) as f:
            mod = f.read()
        cfg = flow.cfg_text(spec="SpecA", invariants=["Contracts", "Emit"])
        flow.run_g(chk, mod, cfg, replay_a, sample_every=101, workers=2, timeout=600, procs=8, batch=20)
        # (b)
        rng = random.Random(chk.seed * 97 + 20)
        cfgs = configs(rng, 14 if quick else 40)
        maxops = 4 if quick else 5
        with open(os.path.join(tlc.SPEC_DIR, "mc", "MC_C20_B.tla")) as f:
            modb = f.read().replace("@GENERATED@", "MCConfigs == " + set_of(cfgs))
        cfgb = flow.cfg_text(spec="LSpec", constants={"MaxOps": maxops}, overrides={"Configs": "MCConfigs"},
                             invariants=["RegistryIsLiveFileHandlers", "OneHandlerPerSection", "LevelsAsConfigured",
                                         "ClosedMeansShut", "Emit"],
                             properties=["FactoryIdempotent", "ReopenActsOnRegisteredOnly", "CloseAllEmptiesRegistry"])
        flow.run_g(chk, modb, cfgb, replay_b, nontrivial=nontrivial_b, sample_every=5003, workers=8, timeout=3000,
                   procs=14, batch=100)
        chk.note("configurations", len(cfgs))
        chk.note("max_ops", maxops)
        if not quick:
            # 6 operations on the hand-written configurations, sampled by simulation
            modb6 = modb.replace(set_of(cfgs), set_of(cfgs[:6]))
            cfg6 = flow.cfg_text(spec="LSpec", constants={"MaxOps": 6}, overrides={"Configs": "MCConfigs"},
                                 invariants=["RegistryIsLiveFileHandlers", "OneHandlerPerSection", "Emit"])
            flow.run_g(chk, modb6, cfg6, replay_b, nontrivial=nontrivial_b, sample_every=5003, workers=4, timeout=3000,
                       procs=14, batch=100, simulate="num=20000", depth=7, seed=chk.seed + 1)
        # (c)
        recs = []
        for style, toks in TOKENS.items():
            for k in (1, 2) if quick else (1, 2, 3):
                combos = list(itertools.product(toks, repeat=k))
                if k == 3:
                    combos = rng.sample(combos, 600)
                for combo in combos:
                    fmt = "".join(combo)
                    if not fmt.strip() or fmt != fmt.strip():
                        fmt = fmt.strip() + "|"
                    for arb in (False, True):
                        recs.append(record_c(style, arb, fmt))
        with open(os.path.join(tlc.SPEC_DIR, "mc", "MC_C20_C.tla")) as f:
            modc = f.read()
        cfgc = flow.cfg_text(spec="SpecV", constants={"N": "@N@"}, invariants=["Verdict"])
        flow.run_v(chk, modc, cfgc, recs, describe_c, workers=1, timeout=900,
                   nontrivial=lambda rec, v: True)
        acc = sum(1 for r in recs if r["load"] == "ok")
        chk.note("formats", {"recorded": len(recs), "accepted_at_load": acc})
    finally:
        shutil.rmtree(root, ignore_errors=True)
    chk.exhaustive = True
    chk.assumptions += [
        "Python's logging package, int(), str.lower(), the %-, {}- and $-format mini-languages and time.strftime are "
        "environment; the specification fixes only what ZConfig adds (level table, handler choice, memoisation, "
        "registry) and what must follow the acceptance of a format",
        "a logger without handler sections gets one NullHandler (compared as class 'null')",
        "dropping a handler = removing it from its logger and clearing the memo of its handler factory, then gc.collect()"]


def set_of(cfgs):
    """Configurations as a TLA+ set expression."""
    return "{" + ",\n ".join(tlc.tla_value(c) for c in cfgs) + "}"


def replay(path):
    with open(path) as f:
        d = json.load(f)
    print(json.dumps(d, indent=1)[:5000])
    return 0
