"""C18 - path, URL and file-object entry points reach the same resource, same
result.

Specification: spec/ZUrl.tla.
A (strings): IsPath (scheme scan vs "a URL is a letter, >= 1 more scheme
   character, a colon"), Normalize / JoinFix (prefix rewriting vs their
   contracts: idempotent, file:/// form, everything else untouched), Defrag on
   top of urllib's answer (environment).
   G: TLC enumerates every string up to the bound over the property's alphabet,
      checks the contracts and emits IsPath / Normalize; replayed on
      BaseLoader.isPath and url.urlnormalize.
   V: calls of isPath / urlnormalize / urldefrag / urljoin / normalizeURL on
      enumerated and random strings are recorded together with urllib's and
      os.path's own answers (environment) and validated by TLC.
   The live scheme pattern is compared with the documented automaton by TLC
   product exploration (ZRegex, kind url-scheme).
B (layouts): TLC enumerates chains of 1..3 resources over the directories of a
   three-level tree x reference shapes x entry point x working directory x
   fragment position, follows them by path algebra (ReachesIntended,
   RefAlgebra) and emits each scenario; the harness spells directories and
   names with characters of the property's alphabet (space, - _ . ~ + & ; [ ],
   non-ASCII), writes the files (and decoys of the same names in every other
   directory), changes directory and loads - once as a configuration with
   %include references, once as a schema with extends / import src - through
   the entry point; the markers read must be exactly those of the chain.
"""
import io
import json
import os
import random
import shutil
import urllib.parse
import urllib.request

from .. import flow, redfa, tlc
from ..chars import enc_char, enc_chars
from ..core import MachineryError
from .c03 import dec_line

LAYOUT_NONE = {"Dirs": "MCNone", "Cwds": "MCNone", "Shapes": "MCNone", "Kinds": "MCNone", "Frags": "MCNone",
               "Chain": "MCNone"}


# -- part A ------------------------------------------------------------------------------------
def _loader():
    import ZConfig.loader
    return ZConfig.loader.ConfigLoader.__new__(ZConfig.loader.ConfigLoader)


def replay_a(v):
    import ZConfig.url
    s = dec_line(v["s"])
    ld = _loader()
    why = None
    try:
        p = bool(ld.isPath(s))
    except Exception as e:
        p = "raised " + type(e).__name__
    try:
        n = ZConfig.url.urlnormalize(s)
    except Exception as e:
        n = "raised " + type(e).__name__
    if p != v["path"]:
        why = "isPath"
    elif n != dec_line(v["norm"]):
        why = "urlnormalize"
    if why is None:
        return None
    return {"clause": why, "input": {"string": s}, "spec": {"path": v["path"], "norm": dec_line(v["norm"])},
            "observed": {"path": p, "norm": n}, "class": {"clause": why}}


def nontrivial_a(v):
    return True if v["s"] else None


JOIN_BASES = ["file:///T/d 1/x.conf", "http://h/a/b", "file:///T/", "/T/d1/x.conf"]


def record_a(s):
    """One V record: the real code's answers and the environment's."""
    import ZConfig
    import ZConfig.url
    ld = _loader()
    rec = {"s": enc_chars(s), "_s": s}

    def grab(f, *a):
        try:
            return f(*a)
        except ZConfig.ConfigurationError:
            return "~refused~"
        except Exception as e:
            return "~raised " + type(e).__name__ + "~"
    rec["path"] = grab(ld.isPath, s)
    if not isinstance(rec["path"], bool):
        rec["path"] = str(rec["path"])
    rec["norm"] = enc_chars(grab(ZConfig.url.urlnormalize, s))
    d = grab(ZConfig.url.urldefrag, s)
    eb, ef = urllib.parse.urldefrag(s)
    rec["envbase"], rec["envfrag"] = enc_chars(eb), enc_chars(ef)
    if isinstance(d, tuple):
        rec["dbase"], rec["dfrag"] = enc_chars(d[0]), enc_chars(d[1])
    else:
        rec["dbase"], rec["dfrag"] = enc_chars(d), enc_chars(d)
    joins = []
    for b in JOIN_BASES:
        try:
            env = urllib.parse.urljoin(b, s)
        except ValueError:
            continue
        joins.append({"env": enc_chars(env), "out": enc_chars(grab(ZConfig.url.urljoin, b, s)), "_base": b})
    try:
        env = urllib.parse.urljoin(s, "x/y.conf")
        joins.append({"env": enc_chars(env), "out": enc_chars(grab(ZConfig.url.urljoin, s, "x/y.conf")), "_base": "<s>"})
    except ValueError:
        pass
    rec["joins"] = [{k: v for k, v in j.items() if not k.startswith("_")} for j in joins] or \
        [{"env": [], "out": []}]
    return rec


def describe_a(i, rec, clause, v):
    return {"clause": clause, "input": {"string": rec["_s"]},
            "observed": {k: rec[k] for k in ("path", "norm", "dbase", "dfrag")},
            "environment": {"urldefrag": [rec["envbase"], rec["envfrag"]], "joins": rec["joins"]},
            "class": {"clause": clause}}


def part_a(chk, quick):
    n = 5 if quick else 6
    with open(os.path.join(tlc.SPEC_DIR, "mc", "MC_C18_A.tla")) as f:
        mod = f.read()
    cfg = flow.cfg_text(spec="SpecA", constants={"MaxLen": n},
                        invariants=["PathContract", "NormalizeContract", "JoinContract", "Emit"])
    flow.run_g(chk, mod, cfg, replay_a, nontrivial=nontrivial_a, sample_every=50021, workers=8, timeout=3000,
               extra_args=("-maxSetSize", "3000000"))
    chk.note("string_bound", n)
    # V: enumerated short strings, file:-prefixed ones and random longer ones
    import itertools
    A = "aC:/\\#.file"
    strs = []
    for k in range(0, 4 if quick else 5):
        strs += ["".join(t) for t in itertools.product(A, repeat=k)]
    for pre in ("file:", "FILE:", "file:/", "file://", "file:///", "fi:", "c:", "ab:"):
        for k in range(0, 3 if quick else 4):
            strs += [pre + "".join(t) for t in itertools.product("a/#.:", repeat=k)]
    rng = random.Random(chk.seed * 31 + 18)
    pool = list(A) + [" ", "é", "+", "-", "1", "?", "%", "ü", "F", "L"]
    for _ in range(4000 if quick else 60000):
        strs.append("".join(rng.choice(pool) for _ in range(rng.randint(1, 12))))
    strs = sorted(set(strs))
    recs = [record_a(s) for s in strs]
    with open(os.path.join(tlc.SPEC_DIR, "mc", "MC_C18_V.tla")) as f:
        modv = f.read()
    envfrag_bad = [0]
    for start in range(0, len(recs), 20000):
        part = recs[start:start + 20000]
        cfgv = flow.cfg_text(spec="SpecV", constants={"N": "@N@"}, invariants=["Verdict"])

        def nt(rec, v):
            if v is not None and not v.get("envfrag", True):
                envfrag_bad[0] += 1
            return bool(rec["_s"])
        flow.run_v(chk, modv, cfgv, part, describe_a, workers=1, timeout=1500, nontrivial=nt)
    chk.note("v_records", len(recs))
    chk.note("urllib_fragment_differs_from_text_after_first_hash", envfrag_bad[0])
    # live scheme pattern vs documented automaton
    import ZConfig.loader
    rx = getattr(ZConfig.loader.BaseLoader, "_pathsep_rx", None)
    Aset = list("aZ1-+.:/\\#_ ") + ["é"]
    try:
        if rx is None:      # module-private; isPath itself is checked by the enumeration above
            raise redfa.Unsupported("pattern object not found")
        d = redfa.dfa(rx, Aset)
        redfa.selfcheck(rx, d, Aset, 3)
    except redfa.Unsupported as e:
        chk.note("regex_product_checks", [{"pattern": "_pathsep_rx", "skipped": str(e)}])
        d = None
    if d is not None:
        delta, acc, init = d
        mod = ("---- MODULE MC_ZRegex ----\nEXTENDS ZRegex\n"
               "MCAlphabet == " + tlc.tla_value({enc_char(c) for c in Aset}) + "\n"
               "MCLiveDelta == " + tlc.tla_value({q: {enc_char(c): t for c, t in row.items()} for q, row in delta.items()}) + "\n"
               "MCLiveAcc == " + tlc.tla_value(set(acc)) + "\nMCExtSpace == {}\n====\n")
        cfg = flow.cfg_text(constants={"Kind": '"url-scheme"', "LiveInit": init},
                            overrides={"Alphabet": "MCAlphabet", "LiveDelta": "MCLiveDelta", "LiveAcc": "MCLiveAcc",
                                       "ExtSpace": "MCExtSpace"}, invariants=["SameLanguage"])
        r = tlc.run(mod, cfg, workers=1, timeout=300)
        chk.add_tlc(r)
        chk.evaluations += 1
        if r.violation:
            chk.disagree({"clause": "live-pattern-language", "pattern": "BaseLoader._pathsep_rx",
                          "live_pattern": rx.pattern, "tlc": r.error_text[:1500],
                          "class": {"clause": "live-pattern-language"}})
        chk.note("regex_product_checks", [{"pattern": "BaseLoader._pathsep_rx", "product_states": r.distinct}])


# -- part B ------------------------------------------------------------------------------------
NAME_ALPHABET = list("abXY019") + [" ", "-", "_", ".", "~", "+", "&", ";", "[", "]", "é", "ü", "中"]
_W = {"root": None, "seed": 0}
CONFIG_SCHEMA = "<schema><multikey name='marker'/></schema>"


def spell(rng, no_space=False, suffix=""):
    while True:
        n = rng.randint(1, 6)
        s = "".join(rng.choice(NAME_ALPHABET) for _ in range(n))
        if no_space:
            s = s.replace(" ", "_")
        if s in (".", "..") or s != s.strip():
            continue
        return s + suffix


def spelling(v, mode, rng):
    """Concrete names for the directories and resources of one scenario."""
    ns = mode == "schema"
    sp = {}
    used = set()
    for d in ("T", "d1", "d2", "d3", "O"):
        while True:
            s = spell(rng, no_space=ns)
            if rng.random() < 0.12:
                # a tilde has no URL meaning and no meaning to ZConfig either: '~' and '~root' are directory names
                s = rng.choice(["~", "~root", "~" + s])
            if s.lower() not in used:
                used.add(s.lower())
                sp[d] = s
                break
    for i in (1, 2, 3):
        while True:
            s = spell(rng, no_space=(ns and i == 2), suffix=".xml" if ns else ".conf")
            if s.lower() not in used:
                used.add(s.lower())
                sp["r%d" % i] = s
                break
    return sp


TREE_DIRS = [("T",), ("T", "d1"), ("T", "d1", "d2"), ("T", "d3")]


LEAF_DIRS = [("T", "d1", "d2"), ("T", "d3"), ("O",)]


def materialise(root, v, mode, sp, links):
    """Write the chain and the decoys.  links: leaf directories that are symbolic links to directories kept
    elsewhere (a resource is addressed by the name it was given, not by where its directory really lives)."""
    def real(segs):
        return os.path.join(root, *[sp[x] for x in segs])
    for d in TREE_DIRS + [("O",)]:
        if tuple(d) in links:
            target = os.path.join(root, "~real", "-".join(d))
            os.makedirs(target, exist_ok=True)
            os.makedirs(os.path.dirname(real(d)), exist_ok=True)
            os.symlink(target, real(d))
        else:
            os.makedirs(real(d), exist_ok=True)
    n = len(v["res"])
    for i in range(1, n + 1):
        here = tuple(v["res"][i - 1])
        name = "r%d" % i
        ref = None
        if i < n:
            segs = ref_segments(v, i)
            if segs[0] == "/":
                target = os.path.join(root, *[sp[x] for x in segs[1:]])
                ref = target if v["shape"][i - 1] == "abs" else "file://" + urllib.request.pathname2url(target)
            else:
                ref = "/".join(sp.get(x, x) for x in segs)
            if v["frag"] == i + 1:
                ref += "#frag"
        if mode == "config":
            body = "marker %s\n" % name
            if ref is not None:
                body += "%%include %s\n" % ref
            decoy = "marker decoy-%s\n" % name
        else:
            if i == 1:
                ext = ref
                if ref is not None and v["frag"] == 2 and len(sp["r1"]) % 2:
                    # the reference that carries the fragment is one of two: a fragment is refused wherever it stands
                    extra = "zcvextra%d.xml" % (len(sp["r2"]) % 2)
                    for d in TREE_DIRS + [("O",)]:
                        with open(os.path.join(real(d), extra), "w") as f:
                            f.write("<schema/>")
                    ext = (extra + " " + ref) if len(sp["r2"]) % 2 else (ref + " " + extra)
                body = "<schema%s><key name='k1' default='r1'/></schema>" % (
                    (" extends=%s" % _q(ext)) if ext is not None else "")
            elif i == 2:
                body = "<schema>%s<key name='k2' default='r2'/></schema>" % (
                    ("<import src=%s/>" % _q(ref)) if ref is not None else "")
            else:
                body = "<schema><sectiontype name='t3'/><key name='k3' default='r3'/></schema>"
            decoy = "<schema><sectiontype name='decoy%d'/><key name='decoy%d' default='x'/></schema>" % (i, i)
        for d in TREE_DIRS + [("O",)]:
            p = os.path.join(real(d), sp[name])
            with open(p, "w", encoding="utf-8") as f:
                f.write(body if tuple(d) == here else decoy)


def _q(s):
    from xml.sax.saxutils import quoteattr
    return quoteattr(s)


def ref_segments(v, i):
    """The reference from resource i to i+1 as TLC's RelRef computed it: recomputed here from the shape
    (the specification's own result is emitted only for the entry argument), checked against `reached`."""
    a, b = list(v["res"][i - 1]), list(v["res"][i])
    c = 0
    while c < len(a) and c < len(b) and a[c] == b[c]:
        c += 1
    rel = [".."] * (len(a) - c) + b[c:] + ["r%d" % (i + 1)]
    sh = v["shape"][i - 1]
    if sh in ("abs", "url"):
        return ["/"] + b + ["r%d" % (i + 1)]
    if sh == "rel":
        return rel
    if sh == "dot":
        return ["."] + rel
    if sh == "updown":
        return ["..", a[-1]] + rel
    if sh == "dotdot":
        return [".."] * (len(a) - c) + ["."] + b[c:] + ["r%d" % (i + 1)]
    raise KeyError(sh)


def run_entry(root, v, mode, sp):
    import ZConfig
    top = os.path.join(root, *[sp[x] for x in v["res"][0]], sp["r1"])
    cwd = os.path.join(root, *[sp[x] for x in v["cwd"]])
    arg = "/".join(sp.get(x, x) for x in v["arg"])
    kind = v["kind"]
    old = os.getcwd()
    os.chdir(cwd)
    f = None
    try:
        if mode == "config":
            schema = ZConfig.loadSchemaFile(io.StringIO(CONFIG_SCHEMA))
            if kind == "abs":
                cfg, _ = ZConfig.loadConfig(schema, top)
            elif kind == "rel":
                cfg, _ = ZConfig.loadConfig(schema, arg)
            elif kind == "url":
                u = "file://" + urllib.request.pathname2url(top) + ("#frag" if v["frag"] == 1 else "")
                cfg, _ = ZConfig.loadConfig(schema, u)
            elif kind == "fobj-abs":
                f = open(top, encoding="utf-8")
                cfg, _ = ZConfig.loadConfigFile(schema, f)
            else:
                f = open(arg, encoding="utf-8")
                cfg, _ = ZConfig.loadConfigFile(schema, f)
            return {"r": "ok", "markers": list(cfg.marker)}
        else:
            if kind == "abs":
                sch = ZConfig.loadSchema(top)
            elif kind == "rel":
                sch = ZConfig.loadSchema(arg)
            elif kind == "url":
                u = "file://" + urllib.request.pathname2url(top) + ("#frag" if v["frag"] == 1 else "")
                sch = ZConfig.loadSchema(u)
            elif kind == "fobj-abs":
                f = open(top, encoding="utf-8")
                sch = ZConfig.loadSchemaFile(f)
            else:
                f = open(arg, encoding="utf-8")
                sch = ZConfig.loadSchemaFile(f)
            keys = sorted(k for k, _ in sch if k)
            return {"r": "ok", "markers": keys + sorted(sch.gettypenames())}
    except ZConfig.ConfigurationError as e:
        return {"r": "refused", "exc": type(e).__name__, "msg": str(e)[:300]}
    except Exception as e:
        return {"r": "raised", "exc": type(e).__name__, "msg": str(e)[:300]}
    finally:
        if f is not None:
            try:
                f.close()
            except Exception:
                pass
        os.chdir(old)


def two_directories(root, v, sp):
    """-> None, or what went wrong."""
    import ZConfig
    import ZConfig.loader
    arg = "/".join(sp.get(x, x) for x in v["arg"])
    cwd1 = os.path.join(root, *[sp[x] for x in v["cwd"]])
    ld = ZConfig.loader.SchemaLoader()
    old = os.getcwd()
    try:
        os.chdir(cwd1)
        try:
            first = sorted(k for k, _ in ld.loadURL(arg) if k)
        except Exception as e:
            return {"first": "raised %s" % type(e).__name__}
        for d in TREE_DIRS + [("O",)]:
            cwd2 = os.path.join(root, *[sp[x] for x in d])
            if os.path.realpath(cwd2) == os.path.realpath(cwd1) or os.path.realpath(cwd2) != os.path.abspath(cwd2):
                continue        # (a symbolic link is never used as working directory: os.getcwd() is physical)
            target = os.path.normpath(os.path.join(cwd2, arg))
            if not os.path.isfile(target) or os.path.realpath(target) == os.path.realpath(os.path.join(cwd1, arg)):
                continue
            os.chdir(cwd2)
            try:
                second = sorted(k for k, _ in ld.loadURL(arg) if k)
            except Exception as e:
                return {"second": "raised %s" % type(e).__name__, "cwd2": d}
            fresh = sorted(k for k, _ in ZConfig.loadSchema(arg) if k)
            if second != fresh:
                return {"first": first, "second": second, "fresh_loader_there": fresh, "cwd2": list(d)}
            return None
    finally:
        os.chdir(old)
    return None


def expected(v, mode):
    if v["out"] == "refused":
        return {"r": "refused"}
    n = len(v["res"])
    if mode == "config":
        return {"r": "ok", "markers": ["r%d" % i for i in range(1, n + 1)]}
    keys = ["k1"] + (["k2"] if n >= 2 else [])
    return {"r": "ok", "markers": sorted(keys) + (["t3"] if n >= 3 else [])}


def replay_b(v):
    # the algebra's own result must be the intended chain (the model's invariant; re-checked on the emitted record)
    for i, r in enumerate(v["reached"]):
        if list(r) != list(v["res"][i]) + ["r%d" % (i + 1)]:
            return {"clause": "model: reached differs from intended", "emitted": v, "class": {"clause": "model"}}
    key = json.dumps([v["res"], v["shape"], v["kind"], v["cwd"], v["frag"]])
    rng = random.Random(hash_str(key) + _W["seed"])
    root = os.path.join(_W["root"], "w%d" % os.getpid())
    for mode in ("config", "schema"):
        sp = spelling(v, mode, rng)
        shutil.rmtree(root, ignore_errors=True)
        os.makedirs(root)
        # some leaf directories are symbolic links (never the working directory: os.getcwd() is physical)
        links = {d for d in LEAF_DIRS if list(d) != list(v["cwd"]) and rng.random() < 0.3}
        try:
            materialise(root, v, mode, sp, links)
            got = run_entry(root, v, mode, sp)
        finally:
            shutil.rmtree(root, ignore_errors=True)
        want = expected(v, mode)
        ok = got["r"] == want["r"] and (got["r"] != "ok" or got["markers"] == want["markers"])
        if ok and mode == "schema" and v["kind"] == "rel" and got["r"] == "ok":
            # one SchemaLoader, the same relative name from two working directories: the second load must give
            # what the name means THERE (a decoy of the same name, if one is reached)
            shutil.rmtree(root, ignore_errors=True)
            os.makedirs(root)
            try:
                materialise(root, v, mode, sp, links)
                two = two_directories(root, v, sp)
            finally:
                shutil.rmtree(root, ignore_errors=True)
            if two is not None:
                return {"clause": "schema: one loader, same relative name, two working directories",
                        "input": {"scenario": v, "spelling": sp, "mode": mode}, "observed": two,
                        "class": {"clause": "schema: reused loader", "kind": v["kind"]}}
        if not ok:
            why = "%s: %s" % (mode, "internal-error" if got["r"] == "raised" else
                              "refusal" if got["r"] != want["r"] else "wrong resource reached")
            return {"clause": why, "input": {"scenario": v, "spelling": sp, "mode": mode,
                                             "symlinked_directories": sorted(links)}, "spec": want,
                    "observed": got, "class": {"clause": why, "kind": v["kind"]}}
    return None


def hash_str(s):
    h = 0
    for ch in s:
        h = (h * 131 + ord(ch)) & 0x7fffffff
    return h


def nontrivial_b(v):
    return True if len(v["res"]) >= 2 or v["kind"] != "abs" else None


def part_b(chk, quick):
    with open(os.path.join(tlc.SPEC_DIR, "mc", "MC_C18_B.tla")) as f:
        mod = f.read()
    import tempfile
    shm = "/dev/shm" if os.path.isdir("/dev/shm") and os.access("/dev/shm", os.W_OK) else None
    root = tempfile.mkdtemp(prefix="zcv-c18-", dir=shm) if shm else tlc.mkscratch("zcv-c18-")
    _W.update(root=root, seed=chk.seed)
    try:
        plans = ([("{1, 2}", "{0, 1, 2}", "MCCwds"), ("{3}", "{0, 3}", "MCCwds2")] if quick else
                 [("{1, 2}", "{0, 1, 2}", "MCCwds"), ("{3}", "{0, 1, 2, 3}", "MCCwds")])
        for chain, frags, cwds in plans:
            cfg = flow.cfg_text(spec="LSpec", constants={"Chain": chain, "Frags": frags},
                                overrides={"Dirs": "MCDirs", "Cwds": cwds, "Shapes": "MCShapes",
                                           "Kinds": "MCKinds"},
                                invariants=["ReachesIntended", "RefAlgebra", "RefusedOnlyForFragment", "Emit"])
            flow.run_g(chk, mod, cfg, replay_b, nontrivial=nontrivial_b, sample_every=20011, workers=8,
                       timeout=3000, procs=14, batch=300)
    finally:
        shutil.rmtree(root, ignore_errors=True)


def run(chk):
    quick = chk.tier == "quick"
    chk.rule = ("A: every string up to the bound over {a C : / \\ # . f i l e} (G) and enumerated / file:-prefixed / "
                "random strings with urllib's answers (V), non-trivial = non-empty string; B: every chain of 1..3 "
                "resources over the four directories of a three-level tree x 6 reference shapes per link (relative in four spellings, absolute path, file: URL) x 5 entry "
                "points x 5 working directories (one outside the tree; quick: 2 for chains of three) x fragment position, each run as a "
                "configuration (%include) and as a schema (extends, import src) with seeded spellings over the "
                "property's file-name alphabet; non-trivial = more than one resource or a non-absolute entry")
    part_a(chk, quick)
    part_b(chk, quick)
    chk.exhaustive = True
    chk.assumptions += [
        "urllib.parse.urldefrag / urljoin, os.path.abspath and urllib.request.pathname2url are environment: their "
        "answers are recorded next to ZConfig's and the specification only adds ZConfig's own post-processing",
        "one seeded spelling of directory and file names per scenario and mode (alphabet: letters, digits, space, "
        "- _ . ~ + & ; [ ], three non-ASCII letters; no leading/trailing blank, not starting with ~); leaf directories other "
        "than the working directory are symbolic links with probability 0.3; names inside "
        "a schema extends list carry no blank (the attribute is a blank-separated list)"]


def replay(path):
    with open(path) as f:
        d = json.load(f)
    print(json.dumps(d, indent=1, ensure_ascii=False)[:4000])
    return 0
