"""C07 - user input can only produce configuration errors, never internal
exceptions.

Specification: the composed machine ZLinesFn . ZLoadFn has no behaviour that
ends in anything but a configuration or one of the configuration-error kinds
(invariant OnlyConfigErrors, checked by TLC on every scenario) and every
behaviour terminates (each step consumes a line or pops a frame; an include
cycle is refused).  Scenarios: valid texts of the family mutated at character,
token and line level (deletion, duplication, transposition, insertion of each
grammar metacharacter and white space), mutated override specifiers
(unconvertible values at every depth), include graphs over 3 files including
all cyclic ones.  The real entry points must end in a configuration or a
ConfigurationError; validator.main on the same files must end with status 0 /
1 and one message per invalid file.
"""
import contextlib
import io
import itertools
import os
import random

from .. import loadgen, project, scenario, schemas, textgen
from . import c14

META = list("<>/%#()$") + [" ", "\t", "=", "+", "*", ":", "\\", "?", "\x00", "\x7f", "\u2028", "é"]


def mutate_text(rng, lines, n):
    lines = [str(l) for l in lines]
    for _ in range(n):
        level = rng.choice(["char", "char", "token", "line", "gut"])
        if not lines:
            lines.append(rng.choice(META))
            continue
        i = rng.randrange(len(lines))
        s = lines[i]
        if level == "char":
            op = rng.choice(["del", "dup", "swap", "ins", "ins"])
            if not s:
                op = "ins"
            p = rng.randrange(len(s)) if s else 0
            if op == "del":
                s = s[:p] + s[p + 1:]
            elif op == "dup":
                s = s[:p] + s[p] + s[p:]
            elif op == "swap" and len(s) > 1:
                p = min(p, len(s) - 2)
                s = s[:p] + s[p + 1] + s[p] + s[p + 2:]
            else:
                s = s[:p] + rng.choice(META) + s[p:]
            lines[i] = s
        elif level == "gut":
            # empty a line of its content but keep its punctuation: '<t1 n1>' -> '<>', '</t1>' -> '</>',
            # '%define a b' -> '%', 'key value' -> the first character
            t = s.strip()
            if t.startswith("</"):
                lines[i] = rng.choice(["</>", "</ >", "</"])
            elif t.startswith("<"):
                lines[i] = rng.choice(["<>", "< >", "</>", "<", "< />", "<//>"])
            elif t.startswith("%"):
                lines[i] = rng.choice(["%", "% ", "%" + t.split()[0][1:]])
            else:
                lines[i] = t[:1]
        elif level == "token":
            toks = s.split(" ")
            op = rng.choice(["del", "dup", "swap"])
            j = rng.randrange(len(toks))
            if op == "del":
                del toks[j]
            elif op == "dup":
                toks.insert(j, toks[j])
            elif len(toks) > 1:
                k = rng.randrange(len(toks))
                toks[j], toks[k] = toks[k], toks[j]
            lines[i] = " ".join(toks)
        else:
            op = rng.choice(["del", "dup", "swap"])
            if op == "del":
                del lines[i]
            elif op == "dup":
                lines.insert(i, lines[i])
            elif len(lines) > 1:
                k = rng.randrange(len(lines))
                lines[i], lines[k] = lines[k], lines[i]
    # a newline inside a line would change the line structure the scenario records
    return [l.replace("\n", " ") for l in lines]


def mutate_spec(rng, spec):
    if rng.random() < 0.5:
        p = rng.randrange(len(spec) + 1)
        return spec[:p] + rng.choice(list("=/$ ") + ["//"]) + spec[p:]
    p = rng.randrange(len(spec))
    return spec[:p] + spec[p + 1:]


def compare(ws, sch, rec, item, emit):
    got, _ = scenario.run_real(ws, sch, rec, item)
    if got["r"] == "err" and got["kind"].startswith("internal:"):
        return {"clause": "internal-error", "observed": got,
                "class": {"clause": "internal-error", "exception": got["kind"][9:], "shape": item["meta"].get("shape")}}
    if (len(item["files"]) == 1 or item["meta"].get("shape") == "include-unopenable") and not item["opts"]:
        # the same text from a file object that has no URL (references then resolve against the working
        # directory; whatever comes of that, it is a configuration or a configuration error)
        text = "".join(l + "\n" for l in item["files"][item["main"]])
        got2, _ = loadgen.load_text(sch, text, rec=rec)
        if got2["r"] == "err" and got2["kind"].startswith("internal:"):
            return {"clause": "internal-error", "observed": got2, "entry": "loadConfigFile without a URL",
                    "class": {"clause": "internal-error", "exception": got2["kind"][9:],
                              "shape": item["meta"].get("shape"), "entry": "no-url"}}
    if got["r"] != emit["o"]["r"]:
        return {"_count_only": True}
    return None


def validator_runs(chk, sc, outs, rng, groups):
    """validator.main on groups of scenario files of one schema."""
    from ZConfig import validator
    ws = scenario.Workspace()
    try:
        for g in range(groups):
            sid = rng.randrange(len(sc.docs))
            idx = [i for i, it in enumerate(sc.items) if it["sid"] == sid and not it["opts"]]
            if not idx:
                continue
            pick = rng.sample(idx, min(len(idx), rng.randint(1, 3)))
            base = os.path.join(ws.root, "v%d" % g)
            os.makedirs(base)
            spath = os.path.join(base, "schema.xml")
            with open(spath, "w") as f:
                f.write(schemas.to_xml(sc.docs[sid]))
            args = ["-s", spath]
            expect_bad = 0
            for k, i in enumerate(pick):
                root = os.path.join(base, "f%d" % k)
                for name, lines in sc.items[i]["files"].items():
                    p = os.path.join(root, name)
                    os.makedirs(os.path.dirname(p), exist_ok=True)
                    with open(p, "w", encoding="utf-8", newline="") as f:
                        f.write("".join(l + "\n" for l in lines))
                args.append(os.path.join(root, sc.items[i]["main"]))
                expect_bad += outs[i]["o"]["r"] == "err"

            class Rec:
                def __init__(self):
                    self.n = 0

                def write(self, s):
                    if s == "\n":
                        self.n += 1

                def flush(self):
                    pass
            rec = Rec()
            why = None
            try:
                with contextlib.redirect_stderr(rec):
                    rc = validator.main(args)
            except SystemExit as e:
                rc, why = e.code, "validator-exit"
            except Exception as e:
                rc, why = None, "validator-raised:" + type(e).__name__
            if why is None and rc != (1 if expect_bad else 0):
                why = "validator-status"
            if why is None and rec.n != expect_bad:
                why = "validator-message-count"
            chk.evaluations += 1
            chk.traces += 1
            if why:
                chk.disagree({"clause": why, "args": args, "status": rc, "messages": rec.n, "expected_invalid": expect_bad,
                              "files": [sc.items[i]["files"] for i in pick], "schema_xml": schemas.to_xml(sc.docs[sid]),
                              "class": {"clause": why.split(":")[0]}, "direction": "G"})
    finally:
        ws.close()


def run(chk):
    quick = chk.tier == "quick"
    rng = random.Random(chk.seed * 7919 + 7)
    docs = [d for d in schemas.interaction_schemas() if "reject" not in schemas.to_xml(d)] + [schemas.interaction_schemas()[6]]
    per = 1000 if quick else 8000
    chk.rule = ("valid random texts of the family schemas x 1..3 mutations (character / token / line level: delete, duplicate, "
                "transpose, insert each of < > / % # ( ) $ = + * blank tab); valid override lists with mutated specifiers and "
                "unconvertible values at every depth; every include graph over 3 files (each file includes any subset of the "
                "three, cyclic ones included); validator.main on groups of these files; non-trivial = all of them")
    sc = scenario.Scenarios(docs)
    for sid in range(len(docs)):
        rec = sc.recs[sid]
        for b in range(per):
            base = textgen.Gen(rng, rec).text()
            p = rng.random()
            if p < 0.6:
                sc.add(sid, {"d/main.conf": mutate_text(rng, base, rng.randint(1, 3))}, meta={"shape": "mutated-text"})
            elif p < 0.72:
                # a damaged text read while (valid) overrides are in force: the extended matchers see it too
                ovs = [o for o in c14.gen_overrides(rng, rec, base, rng.randint(1, 2)) if c14.parse(o)]
                sc.add(sid, {"d/main.conf": mutate_text(rng, base, rng.randint(1, 2))}, opts=ovs,
                       meta={"shape": "mutated-text-with-overrides"})
            else:
                ovs = c14.gen_overrides(rng, rec, base, rng.randint(1, 3))
                if rng.random() < 0.5:
                    k = rng.randrange(len(ovs))
                    ovs[k] = mutate_spec(rng, ovs[k])
                sc.add(sid, {"d/main.conf": [str(l) for l in base]}, opts=ovs, meta={"shape": "mutated-overrides"})
    # include graphs over three files: file i includes the files of subset S_i (all 8^3 combinations)
    names = ["d/a.conf", "d/b.conf", "d/sub/c.conf"]
    rel = {("d/a.conf", "d/b.conf"): "b.conf", ("d/a.conf", "d/sub/c.conf"): "sub/c.conf", ("d/a.conf", "d/a.conf"): "a.conf",
           ("d/b.conf", "d/a.conf"): "a.conf", ("d/b.conf", "d/sub/c.conf"): "sub/c.conf", ("d/b.conf", "d/b.conf"): "b.conf",
           ("d/sub/c.conf", "d/a.conf"): "../a.conf", ("d/sub/c.conf", "d/b.conf"): "../b.conf",
           ("d/sub/c.conf", "d/sub/c.conf"): "c.conf"}
    subsets = [s for n in range(4) for s in itertools.combinations(range(3), n)]
    for sa, sb, sc_ in itertools.product(subsets, repeat=3):
        files = {}
        for fi, subs in enumerate((sa, sb, sc_)):
            files[names[fi]] = ["# file %d" % fi] + ["%include " + rel[(names[fi], names[j])] for j in subs]
        sc.add(0, files, main="d/a.conf", meta={"shape": "include-graph"})
    # %import arguments that name nothing importable as a component (a single inserted or dropped character away
    # from a name that would): refused like any other line that cannot be honoured
    BAD_IMP = [".ZConfig.components.basic", ".ZConfig", "ZConfig.", "ZConfig..components.basic", ".", "..", "...", "a..b",
               ".nosuch", "nosuch_zcv", "nosuch_zcv.sub", "os", "os.path", "os.", ".os", "zcv pkg", "1", "ZConfig.nosuch",
               "ZConfig/components/basic", "ZConfig.components.basic.", "-", "é", "a\x00b", "$nodef", "ZConfig.components:basic"]
    for arg in BAD_IMP:
        sc.add(0, {"d/main.conf": ["%import " + arg]}, meta={"shape": "import-argument"})
        sc.add(0, {"d/main.conf": ["%define e", "%import $e" + arg, "# after"]}, meta={"shape": "import-argument"})
    # %include arguments that cannot be opened: missing files, unknown schemes, malformed URLs, fragments
    BAD_INC = ["nosuch.conf", "foo:bar", "mailto:x", "c.co:nf", "http://[", "file:///nonexistent/zcv/x.conf", "sub/",
               "#frag", "a.conf#frag", "file://otherhost.invalid/x", "//x/y", "\\\\server\\share", "x y.conf", "%41.conf",
               "file:", "file:///", ":", "a:", "1:2", "a\x00b.conf", "file:///a\x00b", "\x7f", "é ü.conf", "ftp://",
               "http://", "http:", "data:;base64,%%%", "data:", "?", "??x=1", "c:/x.conf", "file://%zz/x",
               "package:", "package:x", "package:nosuchpkg_zcv:f.conf", "package::f.conf", "package:os:nosuch.conf",
               "package:os.path:x", "package:zcv:nosuch.conf", "PACKAGE:x:y",
               # bracketed hosts and ports that urllib refuses before it ever connects
               "http://[::1#frag", "http://[::1", "http://[::1]:x/", "http://a]b/", "//[x", "http://h:99999999999/",
               "https://[", "ftp://[::1#f"]
    for arg in BAD_INC:
        for where in (0, 1):
            files = {"d/main.conf": ["# main", "%include " + arg] if where == 0 else ["%include inner.conf"],
                     "d/inner.conf": ["# inner", "%include " + arg]}
            sc.add(0, files, meta={"shape": "include-unopenable", "resolve": {("d", arg): None}})
    outs = sc.run_spec(chk)
    scenario.replay_all(chk, sc, outs, compare)
    validator_runs(chk, sc, outs, rng, 150 if quick else 1500)
    k = next(i for i, it in enumerate(sc.items) if it["meta"]["shape"] == "mutated-text")
    chk.sample({"text": sc.items[k]["files"]["d/main.conf"], "spec": outs[k]["o"]["r"]})
    chk.sample({"include_graph": sc.items[-5]["files"], "spec": outs[-5]["o"]})
    chk.note("scenarios", len(sc.items))
    chk.note("spec_rejected", sum(1 for o in outs if o["o"]["r"] == "err"))
    chk.assumptions += ["datatypes of the family raise ValueError only (errors raised by a datatype function itself pass through "
                        "by design and are not generated)",
                        "a disagreement between specification and code about accept/reject is not a C07 verdict (C01/C03 "
                        "decide that); only internal exceptions and the validator's status/messages are"]


def replay(path):
    import json
    print(json.dumps(json.load(open(path)), indent=1)[:6000])
    return 0
