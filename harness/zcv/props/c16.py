"""C16 - the composite handler delivers every handled value exactly once, all
or nothing.

Specification: the handler list of ZLoadFn (ConstructFrom appends per child in
schema order when a section is finished; the schema-level handler last), the
declarative post-order list ZConform!HandlerList (TLC invariant
HandlerOrderIsPostOrder) and ZConform!CallOutcome for handler maps.
Scenarios: schemas with handler attributes on random subsets of all items
(schema, keys, multikeys, sections, multisections, depth <= 3) x accepted
random texts.  On the real code: len(handler), the (name, value) call sequence
for a complete map (values compared with the specification's and, by identity,
with the object the tree holds), a map with upper-cased names, one name
missing (error, nothing called), one name mapped to None (skipped), and a
case-variant duplicate (error, nothing called).
"""
import copy
import random

import ZConfig

from .. import dts, project, scenario, schemas, textgen
from ..schemas import K, MK, SEC, MSEC, TYPE, SCHEMA


def base_docs():
    d1 = SCHEMA(types=[TYPE("leaf", [K("v", "integer"), MK("m", "string")]),
                       TYPE("mid", [MSEC("leaf", "*", "leaves"), K("k", "boolean"), SEC("leaf", "only", attribute="only")]),
                       TYPE("outer", [MSEC("mid", "+", "mids"), K("+", attribute="w"), SEC("leaf", "*", "one")],
                            datatype="wrap")],
                children=[K("k0", "integer", default="3"), MSEC("outer", "*", "outers"), SEC("mid", "*", "amid"),
                          MK("mk0", "string", defaults=["d"])], datatype="wrap")
    d2 = schemas.interaction_schemas()[10]
    d3 = SCHEMA(types=[schemas.ABS("abs1"), TYPE("a1", [K("k1")], implements="abs1"),
                       TYPE("a2", [MK("+", "integer", attribute="wm")], implements="abs1"),
                       TYPE("box", [MSEC("abs1", "*", "items"), SEC("abs1", "fixed")])],
                children=[MSEC("box", "+", "boxes"), SEC("abs1", "*", "single"), K("k-top")])
    # a schema whose key type does not fold case: handler names are still matched after basic-key normalisation
    d4 = SCHEMA(keytype="identifier",
                types=[TYPE("t1", [K("Key1"), MK("more", "integer")], keytype="identifier")],
                children=[K("Top", "boolean"), MSEC("t1", "*", "ones"), SEC("t1", "+", "named")])
    # derived types: what a type inherits it inherits with its handler, also when it declares nothing of its own
    d5 = SCHEMA(types=[TYPE("server", [K("addr"), MK("alias"), K("limit", "integer")]),
                       TYPE("web", [], extends="server"),
                       TYPE("mail", [K("relay")], extends="server"),
                       TYPE("farm", [MSEC("server", "*", "plain"), MSEC("web", "+", "webs"), SEC("mail", "*", "mail")])],
                children=[MSEC("farm", "*", "farms"), SEC("web", "*", "web"), K("title")])
    return [d1, d2, d3, d4, d5]


def with_handlers(rng, doc, p):
    """Copy of doc with handler attributes on a random subset of all items."""
    d = copy.deepcopy(doc)
    n = [0]

    def place(children):
        for c in children:
            c["handler"] = None
            if rng.random() < p:
                n[0] += 1
                c["handler"] = rng.choice(["H%d", "h-%d", "Hand.%d"]) % n[0]
    place(d["children"])
    for t in d["types"]:
        if not t["abstract"]:
            place(t["children"])
    d["handler"] = "TopH" if rng.random() < p else None
    if rng.random() < 0.3 and n[0] >= 2:
        # two items sharing one handler name
        items = [c for t in [d] + [t for t in d["types"] if not t["abstract"]] for c in t["children"] if c["handler"]]
        items[-1]["handler"] = items[0]["handler"]
    return d


def find_value(cfg, want_id):
    """Is the object with id want_id held somewhere in the tree?"""
    seen = set()
    stack = [cfg]
    while stack:
        o = stack.pop()
        if id(o) in seen:
            continue
        seen.add(id(o))
        if id(o) == want_id:
            return True
        if isinstance(o, dts.Wrapped):
            stack.append(o.section)
        elif hasattr(o, "getSectionAttributes"):
            stack.extend(getattr(o, a) for a in o.getSectionAttributes())
        elif isinstance(o, list):
            stack.extend(o)
        elif isinstance(o, dict):
            stack.extend(o.values())
    return False


def spec_value(v):
    return project.canon_value(v)


def proj_handled(obj, rec):
    """Projection of a handled value without knowing its declared kind:
    compare through every candidate projection of the specification's value."""
    return obj


def compare(ws, sch, rec, item, emit):
    want = emit["o"]
    got, res = scenario.run_real(ws, sch, rec, item)
    if got["r"] != want["r"]:
        return {"clause": "accept/reject", "observed": got, "class": {"clause": "accept/reject"}}
    if res is None:
        return None
    cfg, handler = res
    hl = want["hl"]

    def fail(why, **kw):
        d = {"clause": why, "class": {"clause": why}}
        d.update(kw)
        return d
    if len(handler) != len(hl):
        return fail("length", observed_len=len(handler), spec_len=len(hl))
    names = []
    for h, _ in hl:
        if h not in names:
            names.append(h)
    for mk in emit["hmaps"]:
        calls = []

        def recorder(n):
            return lambda value: calls.append((n, value))
        kind, nm = mk["kind"], mk["name"]
        hmap = {}
        for n in names:
            hmap[n.upper() if kind == "complete" and len(names) % 2 else n] = recorder(n)
        if kind == "extra":
            hmap["zcv-surplus"] = recorder("zcv-surplus")
            hmap["ZCV-None"] = None
        if kind == "missing":
            del hmap[nm]
        elif kind == "none":
            hmap[nm] = None
        elif kind == "dup":
            hmap[nm.upper() if nm.upper() != nm else nm.lower() + "X"] = recorder(nm)
            if nm.upper() == nm:
                continue
        elif kind == "dup2":
            a, b = nm.upper(), nm.capitalize()
            if len({a, b, nm}) < 3:
                continue
            del hmap[nm.upper() if nm.upper() in hmap else nm]
            hmap[a] = recorder(nm)
            hmap[b] = recorder(nm)
        try:
            handler(hmap)
            outcome = "ok"
        except ZConfig.ConfigurationError:
            outcome = "err"
        except Exception as e:
            return fail("internal-error", map_kind=kind, exc=repr(e))
        if outcome != mk["res"]["r"]:
            return fail("map-outcome", map_kind=kind, observed=outcome, spec=mk["res"]["r"])
        if outcome == "err" and calls:
            return fail("called-before-refusing", map_kind=kind, calls=[c[0] for c in calls])
        if outcome == "ok":
            exp = [hl[k - 1] for k in mk["res"]["calls"]]
            if [c[0] for c in calls] != [h for h, _ in exp]:
                return fail("call-sequence", map_kind=kind, observed=[c[0] for c in calls], spec=[h for h, _ in exp])
            for (n, value), (h, sv) in zip(calls, exp):
                # the value handed over is the object the tree holds (identity for objects, equality for scalars)
                if isinstance(value, (list, dict, dts.Wrapped)) or hasattr(value, "getSectionAttributes"):
                    if value is not cfg and not find_value(cfg, id(value)):
                        return fail("value-not-in-tree", map_kind=kind, handler=n)
                cv = project.canon_value(sv)
                t = cv["t"]
                ok = True
                if t == "none":
                    ok = value is None
                elif t == "v":
                    ok = repr(value) == cv["v"]
                elif t == "list":
                    ok = isinstance(value, list) and [repr(x) for x in value] == cv["items"]
                elif t == "map":
                    ok = isinstance(value, dict) and {k: repr(x) for k, x in value.items()} == cv["items"]
                elif t == "mapl":
                    ok = isinstance(value, dict) and {k: [repr(y) for y in x] for k, x in value.items()} == cv["items"]
                elif t == "sec":
                    ok = project.proj_section(value, rec, top=(value is cfg)) == cv["v"]
                elif t == "secs":
                    ok = isinstance(value, list) and [project.proj_section(x, rec) for x in value] == cv["items"]
                if not ok:
                    return fail("handled-value", map_kind=kind, handler=n, spec=cv, observed=repr(value)[:300])
    return None


def run(chk):
    quick = chk.tier == "quick"
    rng = random.Random(chk.seed * 7919 + 16)
    nvar = 40 if quick else 120
    ntext = 40 if quick else 60
    docs = []
    for b in base_docs():
        for v in range(nvar):
            d = with_handlers(rng, b, rng.choice([0.2, 0.5, 0.8, 1.0]))
            if schemas.valid_doc(d) is not None:
                docs.append(d)
    chk.rule = ("5 base schemas (derived types among them; nesting depth 3, multisections, abstract slots, wrapping section datatypes, a case-sensitive key type) x %d random "
                "placements of handler attributes on subsets of all items and the schema x %d random texts, 30%% of them with 1..2 command-line overrides, a quarter of the others cut into 1..3 included resources (conforming "
                "generator; rejected ones count as trivial) x handler maps {complete (with upper-cased names), complete with two surplus names, each name "
                "missing, each name mapped to None, each name duplicated in another case, each name supplied only in two non-normalised spellings}; non-trivial = accepted text with "
                "at least one handler entry" % (nvar, ntext))
    sc = scenario.Scenarios(docs)
    from . import c06, c14
    for sid in range(len(docs)):
        for t in range(ntext):
            text = textgen.Gen(rng, sc.recs[sid]).text()
            opts = []
            if rng.random() < 0.3:
                # the same entries must be delivered when option bags travel with the sections
                opts = [o for o in c14.gen_overrides(rng, sc.recs[sid], text, rng.randint(1, 2)) if c14.parse(o)]
            files, resolve = {"d/main.conf": text}, {}
            if not opts and rng.random() < 0.25:
                # the same entries, in the same order, when parts of the text (whole sections, runs of keys) live in
                # included resources: sections are "closed in the text" wherever their closing line happens to be read
                c = c06.cut(rng, files, rng.choice([1, 2, 3]))
                if c is not None:
                    files, _, resolve = c
            sc.add(sid, files, opts=opts, meta={"resolve": resolve})
    outs = sc.run_spec(chk, invariants=["HandlerOrderIsPostOrder", "TreeIsValueTree2"])
    for it, o in zip(sc.items, outs):
        it["meta"]["nontrivial"] = o["o"]["r"] == "ok" and len(o["o"]["hl"]) > 0
    scenario.replay_all(chk, sc, outs, compare)
    k = next(i for i, o in enumerate(outs) if o["o"]["r"] == "ok" and len(o["o"]["hl"]) > 2)
    chk.sample({"text": [str(l) for l in sc.items[k]["files"]["d/main.conf"]], "handler_names": [h for h, _ in outs[k]["o"]["hl"]]})
    chk.note("schemas", len(docs))
    chk.note("scenarios", len(sc.items))
    chk.exhaustive = False


def replay(path):
    import json
    print(json.dumps(json.load(open(path)), indent=1)[:6000])
    return 0
