"""C12 - abstract slots accept exactly their implementers, including
%import-ed ones.

Specification: SectionInfo / StartSect (abstract slot admits the implementer
table's members only), StepImport (vocabulary of this load only, idempotent,
refused for non-components) in ZLoadFn; sessions in MC_ZSession.
G: for schemas with 1..2 abstract types and implementing / extending /
   unrelated concrete types, every text of <= N lines over {%import of each
   generated package (and of things that are no component), headers of every
   schema and package type, the abstract type itself} is run by TLC and
   replayed on the real code.
V: random sessions of <= 4 such loads against one schema object are recorded
   (outcome, implementer table after each load) and validated by TLC.
"""
import copy
import itertools
import random

from .. import loadgen, packages, project, scenario, schemas, tlc
from ..schemas import ABS, K, MK, MSEC, SEC, SCHEMA, TYPE


def docs():
    d1 = SCHEMA(types=[ABS("abs1"), TYPE("t1", [K("k1")], implements="abs1"), TYPE("t3", [K("k3")], extends="t1"),
                       TYPE("u1", [K("k1")])],
                children=[MSEC("abs1", "*", "impls"), K("k0")])
    d2 = SCHEMA(types=[ABS("abs1"), ABS("abs2"), TYPE("t2", [], implements="abs2")],
                children=[SEC("abs1", "*", "one"), MSEC("abs2", "+", "twos"), SEC("abs1", "fixed")])
    d3 = SCHEMA(types=[ABS("abs1"), TYPE("box", [MSEC("abs1", "*", "items")])],
                children=[MSEC("box", "*", "boxes"), SEC("abs1", "+", "named")])
    # the schema itself imports one of the packages: %import of it is redundant, of another one is not
    d4 = SCHEMA(types=[ABS("abs1"), schemas.IMPORT("zcvpkg_a"), TYPE("t1", [], implements="abs1")],
                children=[MSEC("abs1", "*", "impls")])
    # a component type that extends a type of the schema under another key type
    d5 = SCHEMA(types=list(packages.CONTEXT), children=[MSEC("abs1", "*", "impls"), MSEC("wbase", "+", "bases")])
    # the abstract type, a section type holding a slot of it and one implementer come from a library schema
    # (<import src>); the schema adds an implementer of its own, a package %import-ed by the text another one:
    # all three fit the slots inside the library's section type as well as the schema's own
    d7 = SCHEMA(types=[schemas.IMPORTSRC("zcvpkg_lib"), TYPE("mx", [K("k1")], implements="labs"),
                       TYPE("ux", [K("k2")], extends="l1")],
                children=[MSEC("lbox", "*", "boxes"), SEC("labs", "*", "one")])
    # a required slot of an abstract type that has no implementer when the slot is declared: every implementer
    # comes later (one further down in the schema, the others from %import-ed packages)
    d8 = SCHEMA(types=[ABS("abs1"), ABS("abs2")],
                children=[MSEC("abs1", "+", "impls", required=True), SEC("abs2", "*", "two")])
    return [d1, d2, d3, d4, d5, copy.deepcopy(d1), d7, d8]


LINES = {
    0: ["%import zcvpkg_a", "%import zcvpkg_b", "%import ZCVPKG_A", "%import zcvpkg_nocomp", "<pa1 n1/>", "<pa2 n2/>",
        "<pb1/>", "<t1/>", "<t3 x/>", "<abs1 x/>", "<u1/>", "%define pk zcvpkg_a", "%import $pk"],
    # (schema 0 again, other lines) the same type name from two packages, an implementer in only one of them
    5: ["%import zcvpkg_x", "%import zcvpkg_y", "<dupt n1/>", "<dupt/>", "%import zcvpkg_a", "<pa1 n2/>",
        # components that import each other; an argument that is more than the name of a package
        "%import zcvpkg_p", "%import zcvpkg_q", "<pp1/>", "<pq1 n3/>", "%import zcvpkg_a zcvpkg_b", "<pb1/>"],
    1: ["%import zcvpkg_a", "%import zcvpkg_c", "%import zcvmod_plain", "%import zcvpkg_missing", "<pa1 n1/>",
        "<pc1 n2/>", "<pa1 fixed/>", "<t2 n3/>", "<pa2/>", "%import zcvpkg_a.",
        # the name of the fixed-name abstract slot on a type that merely extends an implementer / implements another type
        "<pa2 fixed/>", "<pc1 fixed/>"],
    2: ["%import zcvpkg_a", "%import zcvpkg_b", "<box>", "</box>", "<pa1 n1/>", "<pb1/>", "<pa1/>", "%import zcvpkg_c"],
    3: ["%import zcvpkg_a", "%import zcvpkg_b", "<pa1 n1/>", "<pb1 n2/>", "<pa2/>", "<t1/>", "%import zcvpkg_nocomp"],
    7: ["%import zcvpkg_a", "%import zcvpkg_c", "<pa1 n1/>", "<pa2 n2/>", "<pc1/>", "<pa1/>", "%import zcvpkg_b", "<pb1 n3/>"],
    6: ["<lbox>", "</lbox>", "<mx/>", "<l1/>", "%import zcvpkg_l2", "<pl2/>", "<mx fixed/>", "<ux/>", "<pl2 fixed/>"],
    4: ["%import zcvpkg_d", "<pd1 n1/>", "<wbase n2/>", "<wbase n3>", "</wbase>", "Gamma gv", "<pd1>", "</pd1>", "own v1"],
}


def proj_recs(sc):
    out = []
    pk = packages.abstract_packages()
    for rec in sc.recs:
        r = copy.deepcopy(rec)
        for p in pk.values():
            if p["ok"]:
                for n, t in p["types"].items():
                    r["types"].setdefault(n, t)
        out.append(r)
    return out


def compare(ws, sch, rec, item, emit):
    if item["sid"] == 5:
        # the same type name comes from two packages here: a schema object that has served other loads carries
        # their implementer names (finding D9), so single loads are judged on a fresh schema object - what a
        # used one does is the business of the sessions below
        sch = loadgen.real_schema(scenario._CTX["sc"].docs[5], fresh=True)
    got, _ = scenario.run_real(ws, sch, rec, item)
    want = emit["o"]
    why = None
    if got["r"] == "err" and got["kind"].startswith("internal:"):
        why = "internal-error"
    elif got["r"] != want["r"]:
        why = "accept/reject"
    elif got["r"] == "ok" and project.canon_section(want["tree"]) != got["tree"]:
        why = "value-tree"
    if why is None:
        return None
    return {"clause": why, "observed": got, "class": {"clause": why}}


def record_session(ws, sc, sid, idxs, mutate_after=(), one_loader=False):
    """one_loader: every load of the session that has no overrides goes through ONE ConfigLoader object
    (an application re-reading its configuration), otherwise each load gets a fresh loader."""
    from . import c02
    import ZConfig.loader
    try:
        sch = loadgen.real_schema(sc.docs[sid], fresh=True)
    except Exception as e:
        import ZConfig
        if not isinstance(e, ZConfig.ConfigurationError):
            raise
        return None      # the schema itself is refused (reported with the single loads): no session to record
    rec = (sc.proj_recs or sc.recs)[sid]
    s = {"sid": sid + 1, "digest0": scenario.session_digest(sch), "steps": [], "_items": idxs,
         "_one_loader": one_loader}
    shared = ZConfig.loader.ConfigLoader(sch) if one_loader else None
    if one_loader and all(sc.items[i]["opts"] == sc.items[idxs[0]]["opts"] and sc.items[i]["opts"] for i in idxs):
        # every load of the session carries the same overrides: one ExtendedConfigLoader holding them
        from ZConfig import cmdline
        shared = cmdline.ExtendedConfigLoader(sch)
        for o in sc.items[idxs[0]]["opts"]:
            shared.addOption(o)
    ext = shared is not None and type(shared).__name__ == "ExtendedConfigLoader"
    for k, i in enumerate(idxs):
        fac = (lambda schema, ovs: shared) if (shared is not None and (ext or not sc.items[i]["opts"])) else None
        got, res = scenario.run_real(ws, sch, rec, sc.items[i], loader_factory=fac)
        tree = project.spec_tree(res[0], rec, top=True) if res else None
        s["steps"].append({"op": "load", "scn": i + 1, "out": scenario.logged_outcome(tree, got),
                           "digest": scenario.session_digest(sch)})
        if res is not None and k in mutate_after:
            c02.mutate(res[0])
            s["steps"].append({"op": "mutate", "scn": i + 1, "out": scenario.logged_outcome(None, {"r": "err", "kind": "config"}),
                               "digest": scenario.session_digest(sch)})
    return s


def describe(sc):
    def f(s, clause, v):
        cls = {"clause": clause, "lenient": (v or {}).get("lenient"),
               "outcome_follows_leak": bool((v or {}).get("leakused"))}
        return {"schema_xml": schemas.to_xml(sc.docs[s["sid"] - 1]), "one_loader_object": s.get("_one_loader", False),
                "loads": [sc.items[i]["files"] for i in s["_items"]],
                "implementers_before": s["digest0"]["impl"],
                "implementers_after": s["steps"][-1]["digest"]["impl"],
                "class": cls}
    return f


def run(chk):
    quick = chk.tier == "quick"
    rng = random.Random(chk.seed * 7919 + 12)
    root = tlc.mkscratch("zcv-pkg-")
    try:
        packages.build(root)
        dd = docs()
        sc = scenario.Scenarios(dd)
        sc.packages = packages.abstract_packages()
        sc.proj_recs = proj_recs(sc)
        maxlen = 3 if quick else 4
        chk.rule = ("8 schemas (abstract types with implementing, extending and unrelated concrete types; abstract slots "
                    "named '*', '+' and fixed; nested) x every text of <= %d lines over: %%import of 3 generated component "
                    "packages (one in another letter case), of a package without component, a plain module, a missing "
                    "package and a name with an empty dotted part; headers of every schema / package type and of the "
                    "abstract type; then random sessions of <= 4 loads against one schema object (half of them through one reused ConfigLoader object, some through one ExtendedConfigLoader holding an override); non-trivial = the text "
                    "has a %%import or a header" % maxlen)
        for sid in range(len(dd)):
            for n in range(0, maxlen + 1):
                for combo in itertools.product(LINES[sid], repeat=n):
                    if sid == 2 and combo.count("<box>") != combo.count("</box>"):
                        continue
                    if sid == 6 and (combo.count("<lbox>") != combo.count("</lbox>")
                                     or (n == maxlen and "<lbox>" not in combo)):
                        continue
                    if sid == 4 and (combo.count("<pd1>") + combo.count("<wbase n3>")
                                     != combo.count("</pd1>") + combo.count("</wbase>")):
                        continue
                    sc.add(sid, {"d/main.conf": list(combo)}, meta={"nontrivial": n > 0})
        # library slots (schema 6) filled by the schema's own, the library's and %import-ed implementers: longer texts
        for combo in (["%import zcvpkg_l2", "<lbox>", "<pl2/>", "</lbox>"], ["<lbox>", "%import zcvpkg_l2", "<pl2 fixed/>", "</lbox>"],
                      ["<lbox>", "<mx/>", "<l1/>", "<pl2/>", "</lbox>"], ["<lbox>", "<mx/>", "<l1/>", "<ux/>", "</lbox>"],
                      ["%import zcvpkg_l2", "<lbox>", "<mx fixed/>", "<pl2/>", "<l1/>", "</lbox>", "<pl2/>"],
                      ["<lbox>", "<mx/>", "</lbox>", "<lbox>", "<l1 fixed/>", "<mx/>", "</lbox>", "<mx/>"],
                      ["<lbox>", "<pl2/>", "</lbox>", "%import zcvpkg_l2"]):
            sc.add(6, {"d/main.conf": list(combo)}, meta={"nontrivial": True})
        # the texts of schema 0 with %import once more, with an override of the top-level key (for the sessions
        # that go through one ExtendedConfigLoader)
        with_opts = []
        for i, it in enumerate(list(sc.items)):
            ls = it["files"]["d/main.conf"]
            if it["sid"] == 0 and 1 <= len(ls) <= 2 and any(l.startswith(("%import", "<p")) for l in ls):
                with_opts.append(sc.add(0, {"d/main.conf": list(ls)}, opts=["k0=ov"], meta={"nontrivial": True}))
        outs = sc.run_spec(chk)
        scenario.replay_all(chk, sc, outs, compare)
        chk.exhaustive = True
        # sessions
        ws = scenario.Workspace()
        try:
            by_sid = {}
            for i, it in enumerate(sc.items):
                if any(l.startswith("%import") for l in it["files"]["d/main.conf"]) or rng.random() < 0.05:
                    by_sid.setdefault(it["sid"], []).append(i)
            sessions = []
            for _ in range(1000 if quick else 8000):
                sid = rng.randrange(len(dd))
                idxs = [rng.choice(by_sid[sid]) for _ in range(rng.randint(2, 4))]
                sessions.append(record_session(ws, sc, sid, idxs, one_loader=rng.random() < 0.5))
            # the same type name from two packages: import the implementing one first, then the other one
            # and use the type (finding D9b: the used schema object still lists the name as an implementer)
            def find(lines):
                return next(i for i, it in enumerate(sc.items) if it["sid"] == 5 and it["files"]["d/main.conf"] == lines)
            first = [find(["%import zcvpkg_x"]), find(["%import zcvpkg_x", "<dupt n1/>"])]
            then = [find(["%import zcvpkg_y", "<dupt n1/>"]), find(["%import zcvpkg_y", "<dupt/>"]),
                    find(["%import zcvpkg_y"]), find(["<dupt n1/>"])]
            for a in first:
                for b in then:
                    for one in (False, True):
                        sessions.append(record_session(ws, sc, 5, [a, b], one_loader=one))
                        sessions.append(record_session(ws, sc, 5, [b, a, b], one_loader=one))
            # sessions through one ExtendedConfigLoader that carries an override of a top-level key
            for _ in range(150 if quick else 1200):
                idxs = [rng.choice(with_opts) for _ in range(rng.randint(2, 4))]
                sessions.append(record_session(ws, sc, 0, idxs, one_loader=True))
        finally:
            ws.close()
        sessions = [x for x in sessions if x is not None]
        scenario.validate_sessions(chk, sc, sessions, describe(sc))
        chk.sample({"text": sc.items[-7]["files"]["d/main.conf"], "spec": outs[-7]["o"]["r"]})
        chk.note("scenarios", len(sc.items))
        chk.note("sessions", len(sessions))
    finally:
        import shutil
        shutil.rmtree(root, ignore_errors=True)


def replay(path):
    import json
    print(json.dumps(json.load(open(path)), indent=1)[:6000])
    return 0
