"""C06 - %include behaves as textual inclusion of a self-contained fragment.

Specification: ZLoadFn (StepInclude: nested frame on the *current* matcher
with the shared definitions, own section stack; StepEnd: unclosed check per
resource) run by ZLoadS.  For every base text (valid and invalid, with
definitions and uses) and every choice of 1..3 balanced cuts (nested cuts
allowed; fragments in the same directory, a subdirectory or the parent), TLC
checks by self-composition that the cut scenario and the inlined scenario have
the same outcome (TwinSameOutcome) and emits both; the harness materialises
both as real files (with decoy files where a wrong base URL would look) and
compares the two real outcomes with each other and with the specification.
A fragment that closes a section it did not open, or leaves one open, is a
separate scenario class that must be rejected.
"""
import posixpath
import random

from .. import project, scenario, schemas, textgen
from ..textgen import Line


def kind(line):
    s = line.strip()
    if s.startswith("</"):
        return "close"
    if s.startswith("<") and s.endswith("/>"):
        return "empty"
    if s.startswith("<"):
        return "open"
    return "other"


def balanced_ranges(lines):
    out = []
    n = len(lines)
    for i in range(n):
        depth = 0
        for j in range(i, n):
            k = kind(lines[j])
            if k == "open":
                depth += 1
            elif k == "close":
                depth -= 1
            if depth < 0:
                break
            if depth == 0:
                out.append((i, j + 1))
    return out


def unbalanced_range(rng, lines):
    """A range of complete lines that is NOT balanced (if any)."""
    n = len(lines)
    cands = []
    bal = set(balanced_ranges(lines))
    for i in range(n):
        for j in range(i + 1, n + 1):
            if (i, j) not in bal and any(kind(l) in ("open", "close") for l in lines[i:j]):
                cands.append((i, j))
    return rng.choice(cands) if cands else None


PLACES = ["same", "sub", "parent"]


def cut(rng, files, ncuts, allow_unbalanced=False, start_at=None):
    """Returns (files-with-includes, description) or None.  start_at: the first cut begins at that line of the
    (single) file given - the line becomes the first line of a resource."""
    files = {k: list(v) for k, v in files.items()}
    desc = []
    resolve = {}
    nfrag = 0
    real = set(files)
    for n in range(ncuts):
        f = rng.choice(sorted(real))
        if allow_unbalanced:
            r = unbalanced_range(rng, files[f])
            if r is None:
                return None
        else:
            rs = balanced_ranges(files[f])
            if n == 0 and start_at is not None:
                rs = [x for x in rs if x[0] == start_at]
            if not rs:
                continue
            r = rng.choice(rs)
        i, j = r
        body = files[f][i:j]
        place = rng.choice(PLACES)
        d = posixpath.dirname(f)
        if any(l.strip().startswith("%include") for l in body):
            place = "same"
        if place == "parent" and d == "":
            place = "same"
        nfrag += 1
        name = "f%d.conf" % nfrag
        rel = {"same": name, "sub": "sub/" + name, "parent": "../" + name}[place]
        target = posixpath.normpath(posixpath.join(d, rel))
        if target in files:
            continue
        ind = rng.choice(["", "  ", "\t"])
        if rng.random() < 0.3:
            # the reference goes through a definition: "$incN/../<rel>" with incN = "<dir of rel>/deep"
            dn = "inc%d" % nfrag
            pre = posixpath.join(posixpath.dirname(rel), "deep").lstrip("/")
            arg = "$%s/../%s" % (dn.upper() if rng.random() < 0.5 else dn, posixpath.basename(rel))
            files[f][i:j] = ["%define " + dn + " " + pre, ind + "%include " + arg]
            resolve[(d, pre + "/../" + posixpath.basename(rel))] = target
        else:
            files[f][i:j] = [ind + "%include " + rel]
        files[target] = body
        real.add(target)
        desc.append((f, i, j, rel))
        # decoys where a wrong base would look for the same relative reference
        for other in {"", "d", "d/sub", posixpath.dirname(target)}:
            dec = posixpath.normpath(posixpath.join(other, rel))
            if not dec.startswith("..") and dec not in files and dec != target:
                files.setdefault(dec, ["decoy-key WRONG"])
    if not desc:
        return None
    return files, desc, resolve


def double_include(rng, lines):
    """T with a balanced range R duplicated right after itself, and the same
    text with both occurrences replaced by an %include of one fragment."""
    rs = balanced_ranges(lines)
    if not rs:
        return None
    i, j = rng.choice(rs)
    body = lines[i:j]
    inlined = lines[:j] + body + lines[j:]
    name = rng.choice(["f1.conf", "sub/f1.conf", "../f1.conf"])
    cutv = lines[:i] + ["%include " + name, "# again", "%include " + name] + lines[j:]
    inl2 = lines[:j] + ["# again"] + body + lines[j:]
    return inl2, {"d/main.conf": cutv, posixpath.normpath(posixpath.join("d", name)): body}


def with_defines(rng, lines):
    """Insert a definition and use it in one or two string-like values; sometimes define the name a second time,
    with the same or with another value (the cuts then put the definitions and the uses on different sides of
    include boundaries, at top level and inside sections: one namespace, in reading order, write-once)."""
    lines = list(lines)
    idx = [i for i, l in enumerate(lines) if l.strip().endswith(" v1") or l.strip().endswith(" V2")]
    if not idx:
        return lines
    name = rng.choice(["d1", "D1", "dx"])
    for i in rng.sample(idx, min(len(idx), rng.choice([1, 1, 2]))):
        lines[i] = lines[i].rsplit(" ", 1)[0] + " " + rng.choice(["$" + name, "${" + name.upper() + "}"])
    pos = rng.randint(0, len(lines))       # before or (sometimes) after the use
    lines.insert(pos, "%define " + name.lower() + " v1")
    r = rng.random()
    if r < 0.25:
        lines.insert(rng.randint(0, len(lines)), "%define " + name.upper() + " V2")      # conflicting
    elif r < 0.45:
        lines.insert(rng.randint(0, len(lines)), "%define " + name.capitalize() + " v1")  # equal: accepted
    return lines


def same(a, b):
    return (a["r"] == "err" and b["r"] == "err") or (a["r"] == "ok" and b["r"] == "ok" and a["tree"] == b["tree"])


_LOADERS = {}


def _one_loader(schema, ovs):
    # one ConfigLoader per schema object and worker process, serving every scenario that comes its way (the
    # scratch directories are recycled, so the same URLs come back with other contents and after failed loads)
    import ZConfig.loader
    assert not ovs
    if id(schema) not in _LOADERS:
        _LOADERS[id(schema)] = (schema, ZConfig.loader.ConfigLoader(schema))
    return _LOADERS[id(schema)][1]


def compare(ws, sch, rec, item, emit):
    sc, outs = scenario._CTX["sc"], scenario._CTX["outs"]
    reuse = item["meta"].get("one_loader")
    got, _ = scenario.run_real(ws, sch, rec, item, loader_factory=_one_loader if reuse else None)
    want = emit["o"]
    why = None
    if got["r"] != want["r"]:
        why = "accept/reject"
    elif got["r"] == "err" and got["kind"].startswith("internal:"):
        why = "internal-error"
    elif got["r"] == "ok" and project.canon_section(want["tree"]) != got["tree"]:
        why = "value-tree"
    if why is None and item["twin"] is not None:
        twin = sc.items[item["twin"]]
        got2, _ = scenario.run_real(ws, sch, rec, twin, loader_factory=_one_loader if reuse else None)
        if not same(got, got2):
            why = "include-differs-from-inline"
    if why is None:
        return None
    return {"clause": why, "observed": got, "cuts": item["meta"].get("cuts"), "class": {"clause": why}}


def run(chk):
    quick = chk.tier == "quick"
    rng = random.Random(chk.seed * 7919 + 6)
    docs = schemas.interaction_schemas()[:11] if quick else schemas.family(chk.seed, 10)
    nbase = 200 if quick else 2000
    chk.rule = ("base texts: random conforming texts of each family schema, half of them damaged by 1-2 line-level faults, a "
                "third with a %define and a use of it; for each, the inlined scenario and up to 4 cut variants (1..3 balanced "
                "cuts, nested, fragments in same / sub / parent directory, decoy files at the places a wrong base URL would "
                "resolve to; a quarter of them named through a symbolic link that leads to another directory; half of the variants and their inlined twins go through one long-lived ConfigLoader per schema, the others through a loader of their own) plus one variant with an unbalanced fragment; one more schema has an abstract slot filled by "
                "%import-ed types, with %import lines and uses of imported types at random top-level positions; non-trivial = at least one %include was produced")
    # + a schema with an abstract slot whose implementers come from %import-ed packages: imports before, inside
    #   and after the fragments (the vocabulary of a load is shared by all its resources, in reading order)
    from . import c12
    from .. import packages, tlc
    import shutil
    docs = list(docs) + [c12.docs()[0]]
    imp_sid = len(docs) - 1
    pkgroot = tlc.mkscratch("zcv-pkg-")
    packages.build(pkgroot)
    sc = scenario.Scenarios(docs)
    sc.packages = packages.abstract_packages()
    sc.proj_recs = c12.proj_recs(sc)
    for sid, doc in enumerate(docs):
        rec = sc.recs[sid]
        vocab = schemas.vocabulary(rec, 40)
        for b in range(nbase):
            lines = textgen.Gen(rng, rec).text()
            if sid == imp_sid:
                extra = [Line(x, role=r, cont="", **kw) for x, r, kw in rng.sample(
                    [("%import zcvpkg_a", "import", {}), ("%import zcvpkg_b", "import", {}),
                     ("<pa1 n%d/>" % b, "empty", {"type": "pa1", "name": "n%d" % b}),
                     ("<pb1/>", "empty", {"type": "pb1", "name": None}),
                     ("<pa2 m%d/>" % b, "empty", {"type": "pa2", "name": "m%d" % b}),
                     ("%import zcvpkg_a", "import", {})], rng.randint(1, 5))]
                for e in extra:
                    tops = [i for i in range(len(lines) + 1) if c08_container_at(lines, i) == ""]
                    lines.insert(rng.choice(tops), e)
            if rng.random() < 0.5:
                lines = textgen.damage(rng, lines, vocab, rng.choice([1, 2]))
            if rng.random() < 0.45:
                lines = with_defines(rng, lines)
            if rng.random() < 0.25:
                # a comment holding a character at which str.splitlines() and text-mode files - but neither
                # readline() on the decoded text nor the grammar - end a line
                odd = rng.choice(["\x0c", "\x85", "\u2028", "\r", "\x0b", "\x1c", "\r"])
                at = rng.randint(0, len(lines))
                lines = lines[:at] + ["# page" + odd + "break"] + lines[at:]
            bom = None
            if rng.random() < 0.15:
                # a key line that begins with U+FEFF - an ordinary character, part of the key - wherever it stands,
                # also as the first line of a resource
                ks = [i for i, l in enumerate(lines) if i > 0 and str(l).strip() and str(l).strip()[0] not in "<%#"]
                if ks:
                    bom = rng.choice(ks)
                    lines = lines[:bom] + ["\ufeff" + str(lines[bom]).strip()] + lines[bom + 1:]
            base = sc.add(sid, {"d/main.conf": lines}, meta={"nontrivial": False})
            for v in range(4):
                c = cut(rng, {"d/main.conf": lines}, rng.choice([1, 2, 3]), start_at=bom if v == 0 else None)
                if c is None:
                    continue
                files, desc, resolve = c
                sc.add(sid, files, twin=base, meta={"cuts": desc, "resolve": resolve, "main_link": rng.random() < 0.25,
                                                     "one_loader": v % 2 == 1})
            if b < 3:
                # "to any include depth": a fragment reached through a chain of thirteen resources, each of which
                # only passes on to the next (alternating between the directory, a subdirectory and back)
                rs = balanced_ranges(lines)
                if rs:
                    i, j = rng.choice(rs)
                    chain = {"d/main.conf": lines[:i] + ["%include c1.conf"] + lines[j:]}
                    for k in range(1, 13):
                        here = "d/c%d.conf" % k if k % 2 else "d/sub/c%d.conf" % k
                        nxt = ("sub/c%d.conf" % (k + 1)) if k % 2 else ("../c%d.conf" % (k + 1))
                        chain[here] = ["# level %d" % k, "%include " + nxt]
                    chain["d/c13.conf"] = lines[i:j]
                    sc.add(sid, chain, twin=base, meta={"cuts": "chain of 13", "one_loader": b == 1})
            di = double_include(rng, lines)
            if di is not None:
                b2 = sc.add(sid, {"d/main.conf": di[0]}, meta={"nontrivial": False})
                sc.add(sid, di[1], twin=b2, meta={"cuts": "same fragment included twice"})
            u = cut(rng, {"d/main.conf": lines}, 1, allow_unbalanced=True)
            if u is not None:
                # an unbalanced fragment must be rejected whatever the inlined text does: no twin
                sc.add(sid, u[0], meta={"cuts": u[1], "unbalanced": True, "resolve": u[2]})
    try:
        outs = sc.run_spec(chk)
        _finish(chk, sc, outs)
    finally:
        shutil.rmtree(pkgroot, ignore_errors=True)


def c08_container_at(lines, pos):
    from . import c08
    return c08.container_at(lines, pos)


def _finish(chk, sc, outs):
    for i, it in enumerate(sc.items):
        if it["meta"].get("unbalanced") and outs[i]["o"]["r"] != "err":
            from ..core import MachineryError
            raise MachineryError("specification accepts an unbalanced fragment: %r" % (it["files"],))
    scenario.replay_all(chk, sc, outs, compare)
    k = next(i for i, it in enumerate(sc.items) if it["twin"] is not None)
    chk.sample({"files": sc.items[k]["files"], "spec": outs[k]["o"]["r"]})
    chk.note("scenarios", len(sc.items))
    chk.note("with_include", sum(1 for it in sc.items if it["twin"] is not None))
    chk.note("accepted_by_spec", sum(1 for o in outs if o["o"]["r"] == "ok"))
    chk.assumptions += ["relative %include references are resolved by the harness' path arithmetic in the specification; "
                        "the real code resolves URLs itself (decoy files make a wrong base visible)"]


def replay(path):
    import json
    print(json.dumps(json.load(open(path)), indent=1)[:6000])
    return 0
