"""C14 - command-line overrides act like editing the addressed keys in the text.

Specification: option bags in ZLoadFn (ParseSpec, CookBag, BagSplit, the
suppression of overridden file lines in StepKV, InjectKeys at finish, leftover
refusal).  For accepted texts with at least one section and override lists of
1..4 specifiers (by name, by type, mixed case, depths 1..3, existing and
missing sections and keys, convertible and unconvertible values, malformed
specifiers) the harness edits the text *as the statement says* (EditText:
first child section in file order whose name or type matches, all lines of the
key dropped, the values appended in the given order, '$' written '$$') and TLC
checks by self-composition that text+overrides and the edited text have the
same outcome (TwinSameOutcome); both are then executed on the real code.
"""
import random
import zlib

from .. import project, refconv, scenario, schemas, textgen
from ..textgen import Line
from . import c06, c08


def children_sections(lines, lo, hi):
    """(open index, close index) of the sections directly inside lines[lo:hi]."""
    out = []
    i = lo
    while i < hi:
        r = lines[i].info["role"]
        if r == "empty":
            out.append((i, i))
        elif r == "open":
            j = c08.block_end(lines, i)
            out.append((i, j))
            i = j
        i += 1
    return out


def find_section(lines, lo, hi, comp):
    lc = comp.lower()
    bk = refconv.keyconv("basic-key", comp)
    for (i, j) in children_sections(lines, lo, hi):
        info = lines[i].info
        if (info.get("name") and lc == info["name"].lower()) or (bk is not None and bk == info["type"]):
            return i, j
    return None


def edit_text(rec, lines, overrides):
    """EditText of the statement.  overrides: [(path components, value)].
    Returns the edited lines, or None when some override addresses a section
    that is not there (the load must then be rejected)."""
    lines = list(lines)
    plan = []       # (section open Line or None, keytype, normalised key, key as written, [values])
    for comps, val in overrides:
        lo, hi, sect = 0, len(lines), None
        T = rec["top"]
        for comp in comps[:-1]:
            f = find_section(lines, lo, hi, comp)
            if f is None:
                return None
            sect = lines[f[0]]
            T = rec["types"][sect.info["type"]]
            lo, hi = f[0] + 1, f[1]
        nk = refconv.keyconv(T["keytype"], comps[-1])
        for p in plan:
            if p[0] is sect and p[2] == nk and nk is not None:
                p[4].append(val)
                break
        else:
            plan.append((sect, T["keytype"], nk, comps[-1], [val]))
    for sect, kt, nk, written, vals in plan:
        if sect is None:
            lo, hi = 0, len(lines)
        else:
            i = next(k for k, l in enumerate(lines) if l is sect)
            if sect.info["role"] == "empty":
                head = str(sect).rstrip()
                op = Line(head[:-2].rstrip() + ">", **dict(sect.info, role="open"))
                cl = Line("</%s>" % sect.info["type"], **dict(sect.info, role="close"))
                lines[i:i + 1] = [op, cl]
                # later plan entries refer to the section by identity: keep it findable
                for k, p in enumerate(plan):
                    if p[0] is sect:
                        plan[k] = (op,) + p[1:]
                sect = op
            lo, hi = i + 1, c08.block_end(lines, i)
        keep = []
        depth = 0
        for k in range(lo, hi):
            l = lines[k]
            r = l.info["role"]
            drop = False
            if depth == 0 and r == "key" and nk is not None:
                if refconv.keyconv(kt, l.strip().split()[0]) == nk:
                    drop = True
            if r == "open":
                depth += 1
            elif r == "close":
                depth -= 1
            if not drop:
                keep.append(l)
        new = [Line((written + " " + v.replace("$", "$$")).rstrip() if v == "" else written + " " + v.replace("$", "$$"),
                    role="key", cont="", child=None) for v in vals]
        lines[lo:hi] = keep + new
    return lines


def gen_overrides(rng, rec, lines, n):
    """n override specifiers (strings) for the text; mostly well-formed."""
    out = []
    for _ in range(n):
        comps = []
        lo, hi, T = 0, len(lines), rec["top"]
        depth = rng.choice([0, 1, 1, 1, 2, 3])
        for d in range(depth):
            secs = children_sections(lines, lo, hi)
            if not secs or rng.random() < 0.08:
                comps.append(rng.choice(["nosuch", "n99"]))      # a section that is not there
                break
            i, j = rng.choice(secs)
            info = lines[i].info
            by_name = info.get("name") and rng.random() < 0.5
            c = info["name"] if by_name else info["type"]
            if rng.random() < 0.3:
                c = c.upper()
            comps.append(c)
            T = rec["types"][info["type"]]
            lo, hi = i + 1, j
        keys = [c for c in T["children"] if c["kind"] in ("key", "multikey")]
        p = rng.random()
        if keys and p < 0.85:
            c = rng.choice(keys)
            if c["name"] == "+":
                key = (rng.choice(["x1", "ovk", "OvK", "X1"]) if T["keytype"] == "identifier" else
                       rng.choice(["x1", "ovk"]) if T["keytype"] != "ipaddr-or-hostname" else "host-z")
            else:
                key = c["name"].upper() if (T["keytype"] != "identifier" and rng.random() < 0.3) else c["name"]
            good, bad = refconv.good_values(c["dt"]), refconv.bad_values(c["dt"])
            val = rng.choice(bad) if (bad and rng.random() < 0.15) else rng.choice(good)
            if c["dt"] in ("string", "null") and rng.random() < 0.2:
                val = rng.choice(["$notexpanded", "a$$b", "x=y", "p/q"])
        elif p < 0.93:
            key, val = "zzunknown", "v1"
        else:
            key, val = "9bad", "v1"          # not a legal key under any key type of the family
        out.append("/".join(comps + [key]) + "=" + val)
    if rng.random() < 0.06:
        out.insert(rng.randint(0, len(out)), rng.choice(["noequals", "a//b=v", "/k=v", "=v", "a/=v"]))
    return out


def parse(spec):
    if "=" not in spec:
        return None
    opt, val = spec.split("=", 1)
    comps = opt.split("/")
    if "" in comps:
        return None
    return comps, val


def same(a, b):
    return (a["r"] == "err" and b["r"] == "err") or (a["r"] == "ok" and b["r"] == "ok" and a["tree"] == b["tree"])


def compare(ws, sch, rec, item, emit):
    sc = scenario._CTX["sc"]
    got, _ = scenario.run_real(ws, sch, rec, item)
    want = emit["o"]
    why = None
    if got["r"] == "err" and got["kind"].startswith("internal:"):
        why = "internal-error"
    elif got["r"] != want["r"]:
        why = "accept/reject"
    elif got["r"] == "ok" and project.canon_section(want["tree"]) != got["tree"]:
        why = "value-tree"
    elif got["r"] == "err" and item["meta"].get("expect_kind") and got["kind"] not in item["meta"]["expect_kind"]:
        why = "error-kind"
    if why is None and item["twin"] is not None:
        got2, _ = scenario.run_real(ws, sch, rec, sc.items[item["twin"]])
        if not same(got, got2):
            why = "override-differs-from-edit"
    if why is None and item["opts"] and zlib.crc32(repr(item["opts"]).encode()) % 3 == 0:
        # one extended loader holding the overrides serves two loads (a reload): both are the edited text's outcome
        from ZConfig.cmdline import ExtendedConfigLoader
        try:
            ld = ExtendedConfigLoader(sch)
            for o in item["opts"]:
                ld.addOption(o)
        except Exception:
            ld = None       # a specifier refused when it is added: covered by the one-shot entry point above
        if ld is not None:
            for k in (1, 2):
                gk = scenario.run_real_again(ws, sch, rec, item, ld)
                if not same(got, gk):
                    why = "override-differs-on-load-%d-through-one-loader" % k
                    got = gk
                    break
    if why is None:
        return None
    return {"clause": why, "observed": got,
            "class": {"clause": why, "internal": got.get("kind") if why == "internal-error" else None,
                      "shape": item["meta"].get("shape"),
                      "imported_type_addressed": addresses_imported_type(item),
                      "code": "rejects" if got["r"] == "err" else "accepts"}}


IMPORTED_TYPES = ("pa1", "pa2", "pb1", "pc1", "pd1")


def addresses_imported_type(item):
    """Does some override path lead into a section whose type the text brought in with %import?"""
    lines = [l for ls in item["files"].values() for l in ls]       # the text may be spread over included files
    heads = [l for l in lines if getattr(l, "info", None) and l.info.get("role") in ("open", "empty")
             and l.info.get("type") in IMPORTED_TYPES]
    if not heads:
        return False
    names = {(h.info.get("name") or "").lower() for h in heads} | {h.info["type"] for h in heads}
    for o in item["opts"]:
        comps = o.split("=", 1)[0].split("/")[:-1]
        if any(c.lower() in names for c in comps):
            return True
    return False


def run(chk):
    quick = chk.tier == "quick"
    rng = random.Random(chk.seed * 7919 + 14)
    # + a section type whose key type (identifier, case-sensitive) differs from the schema's (basic-key)
    from ..schemas import K, MK, SEC, MSEC, TYPE, SCHEMA
    docs = schemas.interaction_schemas() + [
        SCHEMA(types=[TYPE("env", [K("PATH"), K("+", attribute="vars"), MK("Lib_Dirs", "integer")], keytype="identifier"),
                      TYPE("holder", [SEC("env", "*", "env"), K("k2")])],
               children=[SEC("env", "*", "env"), MSEC("env", "+", "envs"), MSEC("holder", "*", "holders"), K("k1")])]
    per = 300 if quick else 2500
    maxov = 2 if quick else 4
    chk.rule = ("accepted random texts of the family schemas x override lists of 1..%d specifiers (section components by "
                "name or type, mixed case, depth 0..3, declared / wildcard / undeclared keys, convertible and unconvertible "
                "values, values with '$', missing sections, malformed specifiers), a third of them with the text cut into "
                "included files; each paired with the hand-edited text; "
                "non-trivial = the override list is well-formed and addresses an existing section" % maxov)
    # + a schema whose abstract slot is filled by %import-ed types: overrides addressed to sections of a type
    #   that the text itself imported
    from . import c12
    from .. import packages, tlc
    import shutil
    docs.append(c12.docs()[0])
    imp_sid = len(docs) - 1
    pkgroot = tlc.mkscratch("zcv-pkg-")
    packages.build(pkgroot)
    try:
        _run(chk, rng, docs, imp_sid, per, maxov)
    finally:
        shutil.rmtree(pkgroot, ignore_errors=True)


def _run(chk, rng, docs, imp_sid, per, maxov):
    from . import c12
    from .. import packages
    pre = scenario.Scenarios(docs)
    pre.packages = packages.abstract_packages()
    pre.proj_recs = c12.proj_recs(pre)
    bases = []
    k1 = {"kind": "key", "name": "k1", "attr": "k1", "dt": "string", "stype": "", "req": False, "dflt": [], "handler": ""}
    for sid in range(len(docs)):
        for b in range(per):
            t = textgen.Gen(rng, pre.recs[sid]).text()
            if sid == imp_sid:
                t = [Line("%import zcvpkg_a", role="import", cont="")] + list(t)
                for j in range(rng.randint(1, 2)):
                    nm = "p%d" % j
                    t += [Line("<pa1 %s>" % nm, role="open", cont="", type="pa1", name=nm, child=None),
                          Line("  k1 v1", role="key", cont="pa1", child=k1),
                          Line("</pa1>", role="close", cont="", type="pa1", name=nm, child=None)]
            bases.append((sid, t))
            pre.add(sid, {"d/main.conf": t})
    pouts = pre.run_spec(chk)
    sc = scenario.Scenarios(docs)
    sc.packages = packages.abstract_packages()
    sc.proj_recs = c12.proj_recs(sc)
    for (sid, t), o in zip(bases, pouts):
        if o["o"]["r"] != "ok":
            continue
        rec = sc.proj_recs[sid]
        for v in range(3):
            ovs = gen_overrides(rng, rec, t, rng.randint(1, maxov))
            parsed = [parse(s) for s in ovs]
            meta = {"nontrivial": False}
            twin = None
            if all(p is not None for p in parsed):
                et = edit_text(rec, t, parsed)
                if et is not None:
                    twin = sc.add(sid, {"d/main.conf": et}, meta={"nontrivial": False})
                    meta = {"nontrivial": True, "shape": "edit"}
                else:
                    meta = {"nontrivial": True, "shape": "missing-section", "expect_reject": True}
            else:
                meta = {"nontrivial": True, "shape": "malformed-specifier", "expect_reject": True,
                        "expect_kind": ["syntax"]}
            files = {"d/main.conf": t}
            if rng.random() < 0.3:
                # the overridden text spread over included files: the option bags travel with the sections,
                # wherever their lines are read from (the edited twin stays in one piece)
                from . import c06
                c = c06.cut(rng, files, rng.choice([1, 2]))
                if c is not None:
                    files = {k: v for k, v in c[0].items()}
                    meta = dict(meta, resolve=c[2], cut=True)
            sc.add(sid, files, opts=ovs, twin=twin, meta=meta)
        # a text that does NOT conform, with an override addressed to the offending section: the rules of C01
        # hold whether or not an option bag travels with the section (here: a section named '*' or '+')
        heads = [i for i, l in enumerate(t) if l.info["role"] in ("open", "empty")]
        if heads and rng.random() < 0.5:
            i = rng.choice(heads)
            l = t[i]
            ty = l.info["type"]
            body = str(l).strip()
            star = rng.choice(["*", "+"])
            tail = "/>" if l.info["role"] == "empty" else ">"
            bad = textgen.Line(str(l)[:len(str(l)) - len(str(l).lstrip())] + "<%s %s%s" % (ty, star, tail), **l.info)
            T = rec["types"][ty]
            keys = [c for c in T["children"] if c["kind"] in ("key", "multikey") and c["name"] != "+"]
            if keys:
                c = rng.choice(keys)
                ov = "%s/%s=%s" % (rng.choice([ty, ty.upper()]), c["name"], refconv.good_values(c["dt"])[0])
                t2 = list(t)
                t2[i] = bad
                sc.add(sid, {"d/main.conf": t2}, opts=[ov],
                       meta={"nontrivial": True, "shape": "bad-name-with-override", "expect_reject": True})
    outs = sc.run_spec(chk)
    from ..core import MachineryError
    for it, o in zip(sc.items, outs):
        if it["meta"].get("expect_reject") and o["o"]["r"] != "err":
            raise MachineryError("specification accepts overrides that must be refused: %r %r" % (it["opts"], it["files"]))
    scenario.replay_all(chk, sc, outs, compare)
    k = next(i for i, it in enumerate(sc.items) if it["twin"] is not None)
    chk.sample({"text": sc.items[k]["files"]["d/main.conf"], "overrides": sc.items[k]["opts"],
                "edited": sc.items[sc.items[k]["twin"]]["files"]["d/main.conf"], "spec": outs[k]["o"]["r"]})
    chk.note("scenarios", len(sc.items))
    chk.note("accepted_with_overrides", sum(1 for it, o in zip(sc.items, outs) if it["opts"] and o["o"]["r"] == "ok"))
    chk.assumptions += ["path components are basic-key shaped (the statement's 'case normalisation' is not defined for others)"]


def replay(path):
    import json
    print(json.dumps(json.load(open(path)), indent=1)[:6000])
    return 0
