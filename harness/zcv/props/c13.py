"""C13 - a schema object can be reused indefinitely: loads neither depend on
nor alter it.

Specification: MC_ZSession - loads take the schema as an immutable value
(SessLoad: outcome = Load(...) of that load alone, app' = app; SessMutate:
app' = app).  Sessions of up to 5 (quick) / 8 operations from {load valid
text, load invalid text (syntax / matching / conversion / section datatype),
load with %import, load with overrides, mutate every list / dict reachable
from a returned configuration} against ONE schema object are recorded from
the real code - outcome and schema digest (types, children, defaults,
implementer table) after every operation - and validated by TLC; each load is
also repeated against a freshly loaded copy of the schema and the two real
outcomes compared.
V (suite): every configuration load the repository's own test-suite performs
is recorded (zcv.suite_plugin: description of the application schema object
immediately before and after the call) and validated by TLC against
spec/ZSchemaStable.tla, whose only step is Load: app' = app.
"""
import random

from .. import loadgen, packages, project, scenario, schemas, textgen, tlc
from ..schemas import K, MK, SEC, MSEC, TYPE, SCHEMA
from ..textgen import Line
from . import c08, c12, c14


def extra_docs():
    # datatypes that go through the registry caches: a dotted name, locale (memoised), defaults in every position
    d = SCHEMA(types=[TYPE("t1", [K("loc", "locale", default="C"), MK("m1", "string-list", defaults=["a b", "c"]),
                                  K("+", "integer", attribute="w", defaults=[("d1", "1"), ("d2", "2")])], datatype="wrap"),
                      TYPE("t2", [MK("+", attribute="wm", defaults=[("x", "p"), ("X", "q")]), SEC("t1", "*", "inner")])],
               children=[K("loc", "locale"), MSEC("t1", "*", "ones"), SEC("t2", "+", "two"), MK("m0", "integer", defaults=["7", "8"])])
    # wildcard maps without any default: what a load returns for them when the text gives no key is the load's own
    # (the application may fill it), never the schema's
    e = SCHEMA(types=[TYPE("t3", [MK("+", "integer", attribute="bare"), ]), TYPE("t4", [K("+", attribute="barek")]),
                      TYPE("t5", [MK("m5"), K("k5")])],
               children=[MSEC("t3", "*", "threes"), MSEC("t4", "*", "fours"), SEC("t5", "fixed"), SEC("t3", "named")])
    return [d, e]


def retype(rng, rec, lines):
    """A section that sits under a fixed name gets the type of another concrete section type (header and closer):
    refused by a fresh schema and by a used one alike."""
    lines = list(lines)
    cands = [i for i, l in enumerate(lines) if getattr(l, "info", None) and l.info.get("role") in ("open", "empty")
             and l.info.get("child") and l.info["child"]["name"] not in ("*", "+")]
    others = sorted(n for n, t in rec["types"].items() if not t["abstract"])
    if not cands or len(others) < 2:
        return None
    i = rng.choice(cands)
    old = lines[i].info["type"]
    new = rng.choice([n for n in others if n != old])
    name = lines[i].info.get("name") or ""
    ind = str(lines[i])[:len(str(lines[i])) - len(str(lines[i]).lstrip())]
    if lines[i].info["role"] == "empty":
        lines[i] = Line("%s<%s %s/>" % (ind, new, name), **dict(lines[i].info, type=new))
        return lines
    j = c08.block_end(lines, i)
    lines[i] = Line("%s<%s %s>" % (ind, new, name), **dict(lines[i].info, type=new))
    lines[j] = Line("%s</%s>" % (ind, new), **dict(lines[j].info, type=new))
    return lines


def same_real(a, b):
    if a["r"] != b["r"]:
        return False
    if a["r"] == "ok":
        return a["tree"] == b["tree"]
    return a["kind"] == b["kind"] and a.get("line") == b.get("line")


def suite_schema_traces(chk):
    """Every configuration load the repository's own test-suite performs, as a recorded execution: the description
    of the application schema object immediately before and after the call (zcv.suite_plugin), validated by TLC
    against ZSchemaStable (a load is the step app' = app)."""
    import json
    import os
    import shutil
    from .. import flow, suite
    spans, tail = suite.run_suite()
    recs = [sp for sp in (spans or []) if sp.get("schema")]
    if not recs:
        chk.note("suite_schema_traces", {"loads": 0, "pytest": tail})
        return
    d = tlc.mkscratch("zcv-sst-")
    path = os.path.join(d, "tr.json")
    verdicts = {}
    try:
        # binding demonstration: one record with a key added to the description taken after the call must be rejected
        import copy
        bent = copy.deepcopy(recs[0]["schema"])
        bent["after"]["rest"] = bent["after"]["rest"] + " "
        with open(path, "w") as f:
            json.dump({"traces": [sp["schema"] for sp in recs] + [bent]}, f)
        cfg = flow.cfg_text(constants={"NTr": len(recs) + 1}, invariants=["Verdict"], properties=["SchemaUnchanged"])
        r = tlc.run("ZSchemaStable", cfg, on_value=lambda v: verdicts.__setitem__(v["tid"], v), workers=2,
                    timeout=900, env={"TRACE_FILE": path})
    finally:
        shutil.rmtree(d, ignore_errors=True)
    chk.add_tlc(r)
    if r.violation:
        from ..core import MachineryError
        raise MachineryError("TLC: %s\n%s" % (r.violation, r.error_text[:2000]))
    if (verdicts.get(len(recs) + 1) or {}).get("clause") != "schema-changed":
        from ..core import MachineryError
        raise MachineryError("ZSchemaStable accepts a record whose description was changed on purpose")
    tally = {}
    for i, sp in enumerate(recs, 1):
        chk.evaluations += 1
        chk.traces += 1
        v = verdicts.get(i)
        clause = v["clause"] if v else "no-behaviour-of-the-specification-matches"
        tally[clause] = tally.get(clause, 0) + 1
        if clause != "accepted":
            chk.disagree({"clause": "suite: " + clause, "direction": "V", "test": sp["test"], "entry": sp["entry"],
                          "ended": sp["ended"], "implementers_before": sp["schema"]["before"]["impl"],
                          "implementers_after": sp["schema"]["after"]["impl"],
                          "class": {"clause": "suite: " + clause}})
    chk.nontrivial_count += len({json.dumps(sp["schema"]["before"], sort_keys=True) for sp in recs})
    chk.note("suite_schema_traces", {"loads": len(recs), "verdicts": tally,
                                     "ended": {k: sum(1 for sp in recs if (sp["ended"] == "returned") == (k == "returned"))
                                               for k in ("returned", "raised")}, "pytest": tail})


def run(chk):
    quick = chk.tier == "quick"
    rng = random.Random(chk.seed * 7919 + 13)
    root = tlc.mkscratch("zcv-pkg-")
    try:
        packages.build(root)
        dd = schemas.interaction_schemas()[:7] + extra_docs() + c12.docs()
        n_family = len(dd) - len(c12.docs())
        sc = scenario.Scenarios(dd)
        sc.packages = packages.abstract_packages()
        sc.proj_recs = c12.proj_recs(sc)
        maxops = 5 if quick else 8
        nsess = 2500 if quick else 20000
        chk.rule = ("random sessions of 2..%d operations against one schema object over %d schemas (family members, a schema "
                    "exercising the datatype caches, the %%import schemas of C12): loads of conforming texts, of texts with "
                    "one fault (malformed line, unknown key, bad value, missing required item, rejecting section datatype), "
                    "of texts with %%import, loads with overrides, and mutation of every reachable list/dict of the previous "
                    "result; non-trivial = every session" % (maxops, len(dd)))
        pool = {}
        for sid in range(len(dd)):
            rec = sc.recs[sid]
            vocab = [Line(v, role="fault", cont="") for v in schemas.vocabulary(rec, 40)]
            for b in range(30):
                t = textgen.Gen(rng, rec).text()
                kind = rng.choice(["valid", "valid", "fault", "damaged", "override", "retype"])
                opts = []
                if kind == "fault":
                    r = c08.inject(rng, rec, t, rng.choice(c08.KINDS))
                    if r is not None:
                        t = r[0]
                elif kind == "retype":
                    t = retype(rng, rec, t) or t
                elif kind == "damaged":
                    t = textgen.damage(rng, t, vocab, 1)
                elif kind == "override":
                    opts = c14.gen_overrides(rng, rec, t, rng.randint(1, 2))
                pool.setdefault(sid, []).append(sc.add(sid, {"d/main.conf": t}, opts=opts))
            if sid >= n_family:
                for combo in [rng.sample(c12.LINES[sid - n_family], 3) for _ in range(25)]:
                    pool[sid].append(sc.add(sid, {"d/main.conf": list(combo)}))
        ws = scenario.Workspace()
        sessions = []
        fresh_bad = []
        try:
            for _ in range(nsess):
                sid = rng.randrange(len(dd))
                idxs = [rng.choice(pool[sid]) for _ in range(rng.randint(2, maxops))]
                mut = {k for k in range(len(idxs)) if rng.random() < 0.4}
                s = c12.record_session(ws, sc, sid, idxs, mutate_after=mut, one_loader=rng.random() < 0.3)
                if s is None:
                    continue
                sessions.append(s)
                # the same loads against independently loaded copies of the schema
                rec = sc.proj_recs[sid]
                loads = [st for st in s["steps"] if st["op"] == "load"]
                for st, i in zip(loads, idxs):
                    fresh = loadgen.real_schema(sc.docs[sid], fresh=True)
                    got, _ = scenario.run_real(ws, fresh, rec, sc.items[i])
                    tree = got.get("tree")
                    a = {"r": st["out"]["r"], "kind": st["out"]["kind"]}
                    if (got["r"] != st["out"]["r"]) or (got["r"] == "err" and got["kind"] != st["out"]["kind"]):
                        fresh_bad.append((s, i, got))
        finally:
            ws.close()
        verdicts = scenario.validate_sessions(chk, sc, sessions, c12.describe(sc))
        tid_of = {id(s): k for k, s in enumerate(sessions, 1)}
        for s, i, got in fresh_bad[:50]:
            # what TLC found for the session this load belongs to: when the recorded outcomes are those of the
            # specification on the schema with the leaked implementer names (deviation LeakedSchema, finding D9b),
            # a used schema accepting what a fresh copy refuses is that finding seen from the other side
            v = verdicts.get(tid_of[id(s)]) or {}
            chk.disagree({"clause": "differs-from-fresh-schema", "direction": "V",
                          "schema_xml": schemas.to_xml(sc.docs[s["sid"] - 1]),
                          "loads": [sc.items[j]["files"] for j in s["_items"]], "load": sc.items[i]["files"],
                          "fresh_outcome": got,
                          "class": {"clause": "differs-from-fresh-schema", "lenient": v.get("lenient"),
                                    "outcome_follows_leak": bool(v.get("leakused")),
                                    "fresh_copy": "rejects" if got["r"] == "err" else "accepts"}})
        suite_schema_traces(chk)
        chk.sample({"session": [sc.items[i]["files"]["d/main.conf"] for i in sessions[0]["_items"]],
                    "ops": [st["op"] for st in sessions[0]["steps"]]})
        chk.note("sessions", len(sessions))
        chk.note("operations", sum(len(s["steps"]) for s in sessions))
        chk.assumptions += ["the schema digest reads the schema object through info.py's public iteration API"]
    finally:
        import shutil
        shutil.rmtree(root, ignore_errors=True)


def replay(path):
    import json
    print(json.dumps(json.load(open(path)), indent=1)[:6000])
    return 0
