"""C02 - an accepted configuration yields exactly the typed value tree the
schema defines.

Same specification and exploration as C01 (ZLoad feed machine; invariant
TreeIsValueTree relates the machine's tree to the declarative ValueTree); the
replay projects the real configuration object - every attribute of every
section value, guided by the kind of the declared item - and compares it with
the specification's tree.  Additionally every list / dict reachable from the
returned object is mutated and the text loaded again against the same schema
object: the second tree must equal the specification's as well (defaults are
applied per load, never shared).
"""
from .. import flow, loadgen, refconv, schemas
from ..schemas import K, MK, SEC, MSEC, TYPE, SCHEMA
from . import c01
from .c03 import dec_line


def datatype_schemas():
    out = []
    for dt in schemas._DTS:
        good = refconv.good_values(dt)
        g0, g1 = good[0], good[-1]
        items = [K("k1", dt), K("kd", dt, default=g0), MK("m1", dt), MK("md", dt, defaults=[g0, g1]),
                 K("+", dt, attribute="w", defaults=[("d1", g1)])]
        out.append(SCHEMA(types=[TYPE("t1", items, datatype="wrap"),
                                 TYPE("t2", [MK("+", dt, attribute="wm", defaults=[("d1", g0), ("D1", g1), ("d2", g0)]),
                                             K("k-x", dt)])],
                          children=[K("k1", dt, required=True), MSEC("t1", "*", "ones"), SEC("t2", "+", "two"),
                                    MK("md", dt, defaults=[g1])]))
    # empty defaults: '' is a default like any other ("else its converted default, else None")
    out.append(SCHEMA(types=[TYPE("t1", [K("ke", "string", default=""), K("kn", "null", default=""),
                                         K("kl", "string-list", default=""), K("kx", "string")])],
                      children=[K("ke", "string", default=""), K("kl", "string-list", default=""),
                                MK("me", "string", defaults=["", "x"]), MSEC("t1", "*", "ones")]))
    # an empty default that its datatype refuses: a conversion error like any other, when the default is needed
    out.append(SCHEMA(types=[TYPE("t1", [MK("mi", "integer", defaults=[""]), K("k1")]),
                             TYPE("t2", [K("ki", "integer", default=""), K("k1")])],
                      children=[MSEC("t1", "*", "ones"), MSEC("t2", "*", "twos"), K("k0")]))
    # attribute names given explicitly, also ones that begin with an underscore (legal identifiers)
    out.append(SCHEMA(types=[TYPE("t1", [K("k1", attribute="_level"), MK("m1", "integer", attribute="__"),
                                         K("+", attribute="_rest"), K("k-2", attribute="given")], datatype="wrap")],
                      children=[K("k1", attribute="_top"), MSEC("t1", "*", "_ones"), SEC("t1", "+", "one_")]))
    # defaults given as <default> elements are the element's text (outer white space dropped, inner white space kept)
    out.append(SCHEMA(types=[TYPE("t1", [MK("m1", defaults=["a  b", "x   y", "p q"]),
                                         K("+", attribute="w", defaults=[("d1", "p   q"), ("d2", "r s")])])],
                      children=[MSEC("t1", "*", "ones"), MK("m0", defaults=["two   words"]), K("k0")]))
    # one abstract multisection slot filled by types whose section datatypes differ: each value passes through
    # the datatype of its own type
    out.append(SCHEMA(types=[schemas.ABS("ab"), TYPE("ia", [K("k1")], implements="ab", datatype="wrap"),
                             TYPE("ib", [K("k1")], implements="ab"),
                             TYPE("ic", [K("k2", "integer")], extends="ia", implements="ab", datatype="null"),
                             TYPE("box", [MSEC("ab", "*", "items"), SEC("ab", "+", "named")])],
                      children=[MSEC("ab", "*", "items"), MSEC("box", "*", "boxes")]))
    return out


def mutate(obj, seen=None):
    """Mutate every list / dict reachable from a returned configuration."""
    seen = seen if seen is not None else set()
    if id(obj) in seen:
        return
    seen.add(id(obj))
    if isinstance(obj, list):
        for x in list(obj):
            mutate(x, seen)
        obj.append("MUTATED")
        obj.reverse()
    elif isinstance(obj, dict):
        for x in list(obj.values()):
            mutate(x, seen)
        obj.clear()
        obj["mutated"] = "MUTATED"
    elif hasattr(obj, "section") and hasattr(obj, "__dict__") and type(obj).__name__ == "Wrapped":
        mutate(obj.section, seen)
    elif hasattr(obj, "getSectionAttributes"):
        for a in obj.getSectionAttributes():
            mutate(getattr(obj, a), seen)


def replay_g(v):
    d = c01.replay_g(v)
    if d is not None or v["o"]["r"] != "ok":
        return d
    i = v["sid"] - 1
    sch = loadgen.real_schema(c01._DOCS[i])
    text = "".join(dec_line(l) + "\n" for l in v["txt"])
    got, res = loadgen.load_text(sch, text, rec=c01._RECS[i])
    if res is None:
        return None
    mutate(res[0])
    got2, _ = loadgen.load_text(sch, text, rec=c01._RECS[i])
    why = loadgen.compare_outcome(v["o"], got2, check_tree=True)
    if why is None:
        return None
    return {"clause": "defaults-aliased:" + why, "input": {"schema_xml": schemas.to_xml(c01._DOCS[i]), "text": text},
            "spec": v["o"], "observed_after_mutation": got2, "class": {"clause": "defaults-aliased"}}


def compare_deep2(ws, sch, rec, item, emit):
    """Whole texts: the tree, and the tree once more after everything reachable from the first result was mutated."""
    from .. import scenario
    d = c01.compare_deep(ws, sch, rec, item, emit)
    if d is not None or emit["o"]["r"] != "ok":
        return d
    got, res = scenario.run_real(ws, sch, rec, item)
    if res is None:
        return None
    mutate(res[0])
    got2, _ = scenario.run_real(ws, sch, rec, item)
    why = loadgen.compare_outcome(emit["o"], got2, check_tree=True)
    if why is None:
        return None
    return {"clause": "deep: defaults-aliased:" + why, "observed_after_mutation": got2,
            "class": {"clause": "defaults-aliased"}}


def run(chk):
    quick = chk.tier == "quick"
    c01.deep(chk, datatype_schemas() + schemas.family(chk.seed + 1, 4 if quick else 20), 30 if quick else 300,
             tree=True, compare=compare_deep2)
    docs = datatype_schemas() + schemas.family(chk.seed + 1, 4 if quick else 20)
    chk.rule = ("as C01, over 15 datatype-stress schemas (every standard datatype with a reference conversion on a key, a "
                "defaulted key, a multikey, a defaulted multikey, a '+' key and a '+' multikey with keyed defaults, inside a "
                "wrapping section datatype) plus the interaction and random family; for every accepted text the projected "
                "real tree (all attributes of all section values, names, types) is compared with the specification's "
                "tree, then every reachable list/dict is mutated and the text loaded again; non-trivial = at least one line")
    def part(docs, cap, maxlines):
        c01.setup(docs)
        c01._MODE["tree"] = True
        vocabs = [schemas.vocabulary(r, cap) for r in c01._RECS]
        keytab, convtab = loadgen.tables(c01._RECS, vocabs)
        mod = loadgen.mc_module("MC_C01_G", loadgen.generated_block(c01._RECS, vocabs, keytab, convtab))
        cfg = flow.cfg_text(constants={"MaxLines": maxlines}, overrides=loadgen.ZLOAD_OVERRIDES,
                            invariants=["ZTypeOK", "AcceptIffConforms", "TreeIsValueTree", "RejectIsConfigError", "Emit"])
        flow.run_g(chk, mod, cfg, replay_g, nontrivial=c01.nontrivial_g, sample_every=40009, timeout=3000, workers=10)

    part(datatype_schemas(), 18 if quick else 24, 3 if quick else 4)
    fam = schemas.family(chk.seed + 1, 4 if quick else 20)
    part(fam, 18 if quick else 24, 4)
    if not quick:
        part(fam[:12], 12, 5)
    chk.exhaustive = True
    chk.note("schema_digest_mismatches", len(loadgen.DIGEST_MISMATCH))
    chk.note("schemas", len(docs))
    chk.assumptions += ["converted values are compared by repr() with reference conversions (harness/zcv/refconv.py)",
                        "the abstract schema record equals what the real parser builds (digest precondition)"]


replay = c01.replay
