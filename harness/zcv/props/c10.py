"""C10 - schema documents are accepted exactly when they obey the schema
language rules.

Specification: spec/ZSchemaLang.tla (the SAX content handler of
ZConfig.schema as a machine over SAX events with parser frames for imports and
base schemas, building the tables of ZConfig.info), spec/ZSchemaRules.tla (the
static rules stated declaratively over the document trees).
G: the documents of the C01 family (rule-abiding by construction) and small
   composed worlds (components, base schemas, import/@src) are edited by generic
   operators at every position (set / delete every attribute, duplicate /
   delete / move / retag every node, insert an element of every kind under
   every node, insert character data); TLC runs the machine on every document,
   checks in every terminal state that it accepted exactly the rule-abiding
   ones (AcceptIffWellFormed) and emits verdict + built schema; every document
   is rendered to XML and loaded with ZConfig.loadSchema*: accepted exactly
   when the specification accepts, refused with ZConfig.SchemaError otherwise
   (at schema load: no configuration is ever read), and the schema object
   equals the specification's.
"""
import copy
import json
import os
import random
import shutil

from .. import flow, project, schemas, tlc
from .. import schemadoc as sd
from ..core import MachineryError
from ..schemadoc import N

_W = {"world": None, "root": None, "labels": None, "mains": None}


# -- static resources every world may refer to --------------------------------------------
def static_components(world):
    world.add_component("zcvsd_e", "component.xml",
                        N("component", {}, [N("sectiontype", {"name": "pe1"}, [N("key", {"name": "k1"})])]))


# -- composed worlds -------------------------------------------------------------------------
def composed_worlds():
    """[(main rid, {file name: tree}, {(pkg, file): tree})]"""
    out = []
    # 1 component implementing an abstract type of the schema + a derived component type; imported twice
    main = N("schema", {}, [
        N("abstracttype", {"name": "abs1"}),
        N("import", {"package": "zcvsd_a"}),
        N("sectiontype", {"name": "t1", "implements": "abs1"}, [N("key", {"name": "k1", "datatype": "integer"})]),
        N("import", {"package": "zcvsd_a"}),
        N("multisection", {"type": "abs1", "name": "*", "attribute": "impls"}),
        N("section", {"type": "pa2", "name": "two"})])
    comp = N("component", {}, [
        N("description", text="a component"),
        N("sectiontype", {"name": "pa1", "implements": "abs1"}, [N("key", {"name": "k1"})]),
        N("sectiontype", {"name": "pa2", "extends": "pa1"}, [
            N("multikey", {"name": "m2", "datatype": "integer"}, [N("default", text="4")])])])
    out.append(("main.xml", {"main.xml": main}, {("zcvsd_a", "component.xml"): comp}))
    # 2 base schemas: two bases with types and items, the extender adds its own; key type from the bases
    b1 = N("schema", {"keytype": "identifier"}, [
        N("sectiontype", {"name": "bt1"}, [N("key", {"name": "k1"})]),
        N("key", {"name": "Base1", "default": "b1"})])
    b2 = N("schema", {"keytype": "identifier", "datatype": "zcv.dts.wrap"}, [
        N("abstracttype", {"name": "babs"}),
        N("key", {"name": "base2", "datatype": "integer"})])
    main = N("schema", {"extends": "b1.xml b2.xml", "datatype": "null", "handler": "toph"}, [
        N("sectiontype", {"name": "own", "extends": "bt1", "implements": "babs"}, [N("key", {"name": "k2"})]),
        N("section", {"type": "babs", "name": "*", "attribute": "impl"}),
        N("key", {"name": "Own1"})])
    out.append(("main.xml", {"main.xml": main, "b1.xml": b1, "b2.xml": b2}, {}))
    # 3 import/@src (types only) + prefixes: relative datatype names at two levels
    other = N("schema", {}, [
        N("sectiontype", {"name": "ot1"}, [N("key", {"name": "ok1"})]),
        N("key", {"name": "ignored"})])
    main = N("schema", {"prefix": "zcv"}, [
        N("import", {"src": "other.xml"}),
        N("sectiontype", {"name": "p1", "prefix": ".dts", "datatype": ".wrap"}, [
            N("key", {"name": "k1", "datatype": ".boomkey"})]),
        N("sectiontype", {"name": "p2", "extends": "ot1", "datatype": ".dts.wrap"}, []),
        N("multisection", {"type": "p1", "name": "+", "attribute": "ones"}),
        N("section", {"type": "p2", "name": "*", "attribute": "two"})])
    out.append(("main.xml", {"main.xml": main, "other.xml": other}, {}))
    # 4 derived types changing the key type of '+' items; component deriving from a schema type
    main = N("schema", {}, [
        N("sectiontype", {"name": "wbase"}, [
            N("key", {"name": "k0"}),
            N("key", {"name": "+", "attribute": "w"}, [N("default", {"key": "Alpha"}, text="av"),
                                                        N("default", {"key": "beta"}, text="bv")])]),
        N("sectiontype", {"name": "wd1", "extends": "wbase", "keytype": "identifier"}, [N("key", {"name": "own"})]),
        N("abstracttype", {"name": "abs1"}),
        N("import", {"package": "zcvsd_d"}),
        N("import", {"package": "zcvsd_d", "file": "component.xml"}),
        N("multisection", {"type": "abs1", "name": "*", "attribute": "impls"}),
        N("multisection", {"type": "wd1", "name": "+", "attribute": "wds"})])
    comp = N("component", {"prefix": "zcv.dts"}, [
        N("sectiontype", {"name": "pd1", "extends": "wbase", "keytype": "identifier", "implements": "abs1",
                          "datatype": ".wrap"},
          [N("multikey", {"name": "+", "attribute": "wm", "datatype": "integer"},
             [N("default", {"key": "a"}, text="1"), N("default", {"key": "A"}, text="2"),
              N("default", {"key": "a"}, text="3")])])])
    out.append(("main.xml", {"main.xml": main}, {("zcvsd_d", "component.xml"): comp}))
    # 5 derived types whose base holds wildcard-named sections (children without a key: only their attribute
    #   reserves a name), chain of two
    main = N("schema", {}, [
        N("sectiontype", {"name": "leaf"}, [N("key", {"name": "v"})]),
        N("sectiontype", {"name": "base"}, [
            N("multisection", {"type": "leaf", "name": "*", "attribute": "items"}),
            N("section", {"type": "leaf", "name": "+", "attribute": "named"}),
            N("key", {"name": "k-one", "attribute": "first"})]),
        N("sectiontype", {"name": "mid", "extends": "base"}, [N("key", {"name": "k2"})]),
        N("sectiontype", {"name": "top", "extends": "mid"}, [
            N("multikey", {"name": "m3"}), N("section", {"type": "leaf", "name": "*", "attribute": "more"})]),
        N("multisection", {"type": "top", "name": "*", "attribute": "tops"}),
        N("multisection", {"type": "leaf", "name": "+", "attribute": "leaves"}),
        N("key", {"name": "k-top", "attribute": "first"})])
    out.append(("main.xml", {"main.xml": main}, {}))
    # 6 base schemas nested two deep: key type and datatype are named at the bottom only, the names at the top
    #   are judged under them (two spellings of one word are two keys; 'a' and 'A' are two default keys)
    root = N("schema", {"keytype": "identifier", "datatype": "zcv.dts.wrap"}, [N("key", {"name": "Root1"})])
    mid = N("schema", {"extends": "root.xml"}, [
        N("sectiontype", {"name": "mt1"}, [N("key", {"name": "k1"})]),
        N("key", {"name": "Mid1"})])
    main = N("schema", {"extends": "mid.xml"}, [
        N("key", {"name": "Foo"}),
        N("key", {"name": "foo"}),
        N("key", {"name": "+", "attribute": "w"}, [N("default", {"key": "a"}, text="1"),
                                                    N("default", {"key": "A"}, text="2")]),
        N("section", {"type": "mt1", "name": "*", "attribute": "one"})])
    out.append(("main.xml", {"main.xml": main, "mid.xml": mid, "root.xml": root}, {}))
    # 7 type names are unique across what <import src> takes over: the schema defines types of its own BEFORE it
    #   imports two libraries, each of which has a type nothing refers to (renaming it is a name clash and nothing else)
    lib1 = N("schema", {}, [
        N("sectiontype", {"name": "lt1"}, [N("key", {"name": "lk"})]),
        N("sectiontype", {"name": "spare1"}, [N("key", {"name": "sk"})])])
    lib2 = N("schema", {}, [
        N("abstracttype", {"name": "labs"}),
        N("abstracttype", {"name": "spare2"}),
        N("sectiontype", {"name": "lt2", "implements": "labs"}, [])])
    main = N("schema", {}, [
        N("sectiontype", {"name": "fresh-type"}, [N("key", {"name": "a"})]),
        N("abstracttype", {"name": "fresh-name"}),
        N("sectiontype", {"name": "k1"}, []),
        N("import", {"src": "lib1.xml"}),
        N("import", {"src": "lib2.xml"}),
        N("sectiontype", {"name": "own2", "extends": "lt1", "implements": "labs"}, []),
        N("multisection", {"type": "fresh-type", "name": "*", "attribute": "fs"}),
        N("multisection", {"type": "labs", "name": "*", "attribute": "ls"})])
    out.append(("main.xml", {"main.xml": main, "lib1.xml": lib1, "lib2.xml": lib2}, {}))
    return out


def rename_world(w, i):
    """Give the resources of a composed world scenario-private names."""
    main, files, comps = copy.deepcopy(w)
    sub = "s%d" % i
    nfiles = {"%s_%s" % (sub, name): t for name, t in files.items()}
    ncomps = {(pkg, "%s_%s" % (sub, f)): t for (pkg, f), t in comps.items()}
    for t in list(nfiles.values()) + list(ncomps.values()):
        pfx = t["a"].get("prefix") or ""
        for _, n in sd.walk(t):
            if n["tag"] == "import":
                pkg = n["a"].get("package") or ""
                if pkg.startswith("."):
                    pkg = pfx + pkg           # a relative package name is resolved against the document's prefix
                if pkg and (pkg, n["a"].get("file") or "component.xml") in comps:
                    n["a"]["file"] = "%s_%s" % (sub, n["a"].get("file") or "component.xml")
                if n["a"].get("src") in files:
                    n["a"]["src"] = "%s_%s" % (sub, n["a"]["src"])
            if n["tag"] == "schema" and n["a"].get("extends"):
                n["a"]["extends"] = " ".join(("%s_%s" % (sub, r)) if r in files else r
                                             for r in n["a"]["extends"].split())
    return "%s_%s" % (sub, main), nfiles, ncomps


def sample_edits(rng, es, cap):
    """All edits whose value comes from the document itself ("set!"), a seeded sample of the others."""
    if len(es) <= cap:
        return es
    keep = [e for e in es if e[0].startswith("set!")]
    rest = [e for e in es if not e[0].startswith("set!")]
    return keep + rng.sample(rest, max(0, min(len(rest), cap - len(keep) // 2)))


# -- scenario generation -----------------------------------------------------------------------
def scenarios(seed, quick):
    """-> list of (label, main rid, files, comps)"""
    rng = random.Random(seed * 1009 + 10)
    out = []
    fam = schemas.family(seed, 6 if quick else 20)
    plain = [sd.from_family(d) for d in fam]
    cap_plain = 260 if quick else 100000
    for bi, base in enumerate(plain):
        out.append(("base %d" % bi, None, base, None))
        es = sample_edits(rng, list(sd.edits(base)), cap_plain)
        for lab, t in es:
            out.append(("plain %d: %s" % (bi, lab), None, t, None))
        if not quick:
            for _ in range(150):
                (l1, t1) = rng.choice(es)
                e2 = list(sd.edits(t1))
                (l2, t2) = rng.choice(e2)
                out.append(("plain %d: %s ; %s" % (bi, l1, l2), None, t2, None))
    cap_comp = 160 if quick else 100000
    for wi, w in enumerate(composed_worlds()):
        main, files, comps = w
        out.append(("world %d" % wi, "W", w, None))
        for name in list(files) + list(comps):
            base = files[name] if name in files else comps[name]
            es = sample_edits(rng, list(sd.edits(base)), cap_comp)
            for lab, t in es:
                w2 = (main, dict(files), dict(comps))
                if name in files:
                    w2[1][name] = t
                else:
                    w2[2][name] = t
                out.append(("world %d %s: %s" % (wi, name, lab), "W", w2, None))
    return out


def build_batch(items, start):
    """items: scenarios; returns (world, mains, labels)."""
    world = sd.World()
    static_components(world)
    mains, labels = [], []
    for k, (lab, kind, payload, _) in enumerate(items):
        i = start + k
        if kind is None:
            rid = "p%d" % i
            world.docs[rid] = payload
        else:
            main, files, comps = rename_world(payload, i)
            for name, t in files.items():
                world.add_file(name, t)
            for (pkg, f), t in comps.items():
                world.add_component(pkg, f, t)
            rid = main
        mains.append({"rid": rid, "exp": False, "fault": {"rid": "", "n": 0}})
        labels.append(lab)
    return world, mains, labels


def replay_g(v):
    world, root = _W["world"], _W["root"]
    i = v["d"] - 1
    rid = _W["mains"][i]["rid"]
    sch, got = sd.load_real(world, root, rid)
    why = None
    if got["ok"] != v["ok"]:
        why = "accept/reject"
    elif not got["ok"]:
        if got["cls"] != "SchemaError" and not v["any"]:
            why = "error-class"
    else:
        try:
            real = project.digest_schema(sch)
        except Exception as e:          # the digest reads info.py internals
            return {"clause": "digest-unreadable", "why": repr(e), "class": {"clause": "digest-unreadable"},
                    "input": {"label": _W["labels"][i]}}
        if real != sd.canon_digest(v["dig"]):
            why = "schema-object"
    if why is None:
        return None
    det = {"clause": why, "input": {"label": _W["labels"][i], "main": rid,
                                    "xml": {r: sd.to_xml(t) for r, t in world.docs.items()
                                            if r == rid or (rid.startswith("s") and r.split("_")[0] == rid.split("_")[0])
                                            or ("_" in r and r.split(":")[-1].split("_")[0] == rid.split("_")[0])}},
           "spec": {"ok": v["ok"], "why": v["why"], "any": v["any"]}, "observed": got,
           "class": {"clause": why, "spec_why": v["why"], "exc": got.get("exc")}}
    if why == "schema-object":
        det["spec"]["digest"] = sd.canon_digest(v["dig"])
        det["observed"]["digest"] = real
    return det


def nontrivial_g(v):
    return True


def tally_g(v):
    return "accepted" if v["ok"] else "refused: " + v["why"]


def run_batches(chk, items, batch, invariants, timeout=1500, exp=False, replay=None, tally=None):
    root = tlc.mkscratch("zcv-c10-")
    try:
        for start in range(0, len(items), batch):
            part = items[start:start + batch]
            world, mains, labels = build_batch(part, start)
            if exp:
                for m in mains:
                    m["exp"] = True
            sd.materialise(world, root)
            _W.update(world=world, root=root, labels=labels, mains=mains)
            doc = {"docs": world.docs, "mains": mains}
            doc.update(sd.tables(world))
            tf = os.path.join(root, "scn-%d.json" % start)
            with open(tf, "w") as f:
                json.dump(doc, f)
            cfg = flow.cfg_text(constants={"N": len(mains)}, overrides=OVERRIDES, invariants=invariants)
            flow.run_g(chk, "MC_ZSchema", cfg, replay or replay_g, nontrivial=nontrivial_g, sample_every=3001,
                       tally=tally or tally_g,
                       workers=12, timeout=timeout, env={"TRACE_FILE": tf}, procs=8, batch=200)
            os.unlink(tf)
    finally:
        shutil.rmtree(root, ignore_errors=True)


OVERRIDES = {k: "MC" + k for k in ("KeyNorm", "LowerOf", "AttrOf", "IsIdent", "IsReserved", "IsRel", "DtCanon",
                                   "PfxAbsOK", "PfxRelOK", "StripOf", "HasDirPart", "SplitRefs", "RefOf", "PkgOf",
                                   "DocOf")}


def run(chk):
    quick = chk.tier == "quick"
    items = scenarios(chk.seed, quick)
    chk.rule = ("every document of the C01 family and of six composed worlds (component imported twice, two base "
                "schemas, import/@src with prefixes, derived types re-keying '+' defaults incl. from a component, derived types over wildcard-named sections, base schemas nested two deep with the key type named at the bottom) and "
                "every document obtained by one generic edit at every position (set every attribute to each value of "
                "its pool incl. sibling names and their case variants / delete it; duplicate, delete, move, retag every "
                "node; insert an element of every kind under every node; insert character data)"
                + ("" if quick else " plus 150 random pairs of edits per base document")
                + (" (quick: seeded sample of the edits per document)" if quick else "")
                + "; all distinct documents; every one is non-trivial (a document to be judged)")
    run_batches(chk, items, 1500, ["AcceptIffWellFormed", "StacksBalanced", "Emit"])
    chk.exhaustive = not quick
    chk.note("documents", len(items))
    chk.assumptions += [
        "what a key type / basic-key / identifier / dotted-name does to a token, which datatype names are registered "
        "and what references and package names resolve to are environment tables computed by the harness from the "
        "documentation (refconv.py, schemadoc.tables); C09 checks the real converters, C18 the URL arithmetic",
        "XML well-formedness is environment (documents are rendered from trees)",
        "a dotted datatype name that cannot be imported and a keyed default whose key the key type refuses are "
        "rejected with an exception class the statement does not fix (any class accepted)"]


def replay(path):
    with open(path) as f:
        d = json.load(f)
    print(d["input"]["label"])
    for r, x in d["input"]["xml"].items():
        print("---", r)
        print(x)
    print("spec    :", d["spec"])
    print("observed:", d["observed"])
    return 0
