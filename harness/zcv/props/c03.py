"""C03 - configuration text is read by the documented line grammar and nothing
else.  (The same runs feed C17, see c17.py.)

Specification: spec/ZLines.tla.
G level 1: TLC enumerates every line up to the length bound over the 16-class
   alphabet (longer lines over reduced alphabets), in up to three contexts;
   checks Classify = Shape and machine = recursive descent; every terminal
   state is replayed on ZConfig.schemaless.loadConfigFile.
G level 2: all texts of <= MaxLines lines over representative lines.
V: random texts (<= 40 lines, depth <= 6, Unicode) recorded from the real code
   and validated by TLC.
"""
import io
import os
import random

from .. import flow
from ..chars import enc, enc_chars, ext_tables
from ..core import MachineryError
from ..tlc import tla_value
from .c04 import EnvPatch, candidates


def dec_token(t):
    if t.startswith("~u"):
        return chr(int(t[2:-1], 16))
    return t


def dec_line(tokens):
    return "".join(dec_token(t) for t in tokens)


def dec_str(s):
    out = []
    i = 0
    while i < len(s):
        if s[i] == "~":
            j = s.index(";", i)
            out.append(chr(int(s[i + 2:j], 16)))
            i = j + 1
        else:
            out.append(s[i])
            i += 1
    return "".join(out)


# -- observation of the real code ------------------------------------------
def project_section(sec):
    return {
        "type": sec.type or "",
        "name": sec.name or "",
        "keys": {k: list(v) for k, v in sec.items()},
        "secs": [project_section(s) for s in sec.sections],
    }


def observe_text(text, env=None):
    """Load text with the schema-less loader; returns the abstract outcome.  Every name the text could refer to
    is taken out of the environment for the duration of the call, except those given in env."""
    import ZConfig
    from ZConfig import schemaless
    with EnvPatch(candidates(text, full=False), env or {}):
        try:
            top = schemaless.loadConfigFile(io.StringIO(text))
        except ZConfig.SubstitutionSyntaxError:
            return {"r": "err", "kind": "substsyntax"}, None
        except ZConfig.ConfigurationSyntaxError as e:
            return {"r": "err", "kind": "syntax", "line": e.lineno}, None
        except NotImplementedError:
            return {"r": "err", "kind": "refused"}, None
        except Exception as e:
            return {"r": "err", "kind": "other:" + type(e).__name__}, None
    return {"r": "ok", "tree": project_section(top), "imports": list(top.imports)}, top


def canon_spec_node(n, dec=dec_str):
    keys = {}
    for k, v in n["kv"]:
        keys.setdefault(dec(k), []).append(dec(v))
    return {"type": dec(n["type"]), "name": dec(n["name"]), "keys": keys,
            "secs": [canon_spec_node(s, dec) for s in n["secs"]]}


def text_of(lines, variant):
    text = "\n".join(lines)
    if variant % 2 == 0 and lines:
        text += "\n"
    return text


def compare(want, got):
    """want: spec outcome (JSON from TLC), got: observed.  Returns failing
    clause or None.  Only what C03 states is compared: accepted or not, the
    error family, and the nested mapping."""
    if want["r"] != got["r"]:
        return "accept/reject"
    if want["r"] == "err":
        if want["kind"] != got["kind"]:
            return "error-kind"
        return None
    if canon_spec_node(want["tree"]) != got["tree"]:
        return "tree"
    if sorted(dec_str(i) for i in want["imports"]) != sorted(got["imports"]):
        return "imports"
    return None


def replay_g(v):
    lines = [dec_line(l) for l in v["txt"]]
    for variant in (0, 1):
        text = text_of(lines, variant)
        got, _ = observe_text(text)
        why = compare(v["o"], got)
        if why:
            return {"clause": why, "input": {"text": text}, "spec": v["o"], "observed": got,
                    "class": {"clause": why}}
    return None


REPS_QUICK = ["<a>", "<a n>", "<b>", "</a>", "</b>", "<a/>", "<B X/>", "k v", "k", "K w  x",
              "# c", "", "%import p", "%define x y", "%bogus z", "<a", "(x", "</A >", "k $$v", "%include f",
              # U+FEFF is not white space: in front of '#', '<' or '%' it makes the line a key line, on any line
              "\ufeff# c", "\ufeff<a>"]
REPS_MORE = ["<a n m>", "</a", "%import", "% import p", "<a/ >", "<a />", "k $v", "k $", "<a (n)>",
             "%Import p", "</>", "<>", "%import q"]


def g_cfg(level, l16, l8, l5, maxlines):
    return flow.cfg_text(
        constants={"Level": level, "L16": l16, "L8": l8, "L5": l5, "MaxLines": maxlines},
        overrides={"ExtLower": "MCExtLower", "ExtSpace": "MCExtSpace"},
        invariants=["LTypeOK", "ClassifyEqualsShape", "MachineEqualsDescent", "Emit"])


def g_module(reps):
    from ..tlc import SPEC_DIR
    with open(os.path.join(SPEC_DIR, "mc", "MC_C03_G.tla")) as f:
        text = f.read()
    return text.replace("@REPS@", tla_value({tuple(enc_chars(r)) for r in reps}).replace("<<>>", "<< >>"))


def nontrivial_g(v):
    # a text is non-trivial when at least one of its lines is not blank/comment
    for l in v["txt"]:
        s = dec_line(l).strip()
        if s and not s.startswith("#"):
            return True
    return None


def run_g_levels(chk, quick, replay):
    if quick:
        l16, l8, l5, reps, maxlines = 4, 5, 6, REPS_QUICK, 3
    else:
        l16, l8, l5, reps, maxlines = 5, 6, 7, REPS_QUICK + REPS_MORE, 4
    mod = g_module(reps)
    r1, n1 = flow.run_g(chk, mod, g_cfg(1, l16, l8, l5, maxlines), replay,
                        nontrivial=nontrivial_g, sample_every=70001, timeout=3000,
                        extra_args=() if quick else ("-maxSetSize", "4000000"))
    r2, n2 = flow.run_g(chk, mod, g_cfg(2, l16, l8, l5, maxlines), replay,
                        nontrivial=nontrivial_g, sample_every=30011, timeout=3000,
                        extra_args=() if quick else ("-maxSetSize", "4000000"))
    # directive words: the three directives in other letter cases and with neighbours, and words that a parser
    # might have lying around as method or attribute names - "exactly so spelled ... the only directives"
    words = ["define", "import", "include", "Define", "IMPORT", "Include", "defines", "imports", "includes", "def",
             "key_value", "directive", "section", "start_section", "end_section", "parse", "error", "replace",
             "nextline", "handle_define", "_define", "define_", "url", "lineno", "context", "stack", "file",
             "defined", "undef", "if", "end", "__init__", "__class__"]
    dreps = (["%" + w + " a b" for w in words] + ["%" + w for w in words[:6]] + ["<a>", "</a>"]
             + ["%" + w + sep + "a b" for w in words[:6] for sep in ("\t", "\u3000", "  \t")])
    r3, n3 = flow.run_g(chk, g_module(dreps), g_cfg(2, l16, l8, l5, 1), replay,
                        nontrivial=nontrivial_g, sample_every=97, timeout=900)
    # closers: '</type>' and nothing else closes a section - a closer is compared with the open section's type as a
    # whole (after trailing white space is dropped and letters are lower-cased), whatever else it may look like
    creps = ["<a>", "<a b>", "<b x>", "</a>", "</a b>", "</a  a>", "</ a>", "</a >", "</A>", "</a\tb>", "</b x>",
             "</a b c>", "</b>", "</a/>", "</a )>", "k v"]
    r4, n4 = flow.run_g(chk, g_module(creps), g_cfg(2, l16, l8, l5, 3), replay,
                        nontrivial=nontrivial_g, sample_every=997, timeout=900)
    chk.note("g_closer_shape_texts", n4)
    chk.note("g_directive_word_texts", n3)
    chk.note("g_level1_texts", n1)
    chk.note("g_level2_texts", n2)
    chk.note("g_bounds", {"L16": l16, "L8": l8, "L5": l5, "level2_lines": len(reps), "level2_maxlines": maxlines})
    return n1, n2


# -- direction V ------------------------------------------------------------
_WS = [" ", "\t", "　", " ", "  "]
_NAMECH = list("abAB19-._") + ["é", "É", "Ж", "ß"]
_ODD = list("<>/%#()$=:\"'\\") + _NAMECH + _WS


def _tok(rng, extra=""):
    return "".join(rng.choice(_NAMECH + list(extra)) for _ in range(rng.randint(1, 4)))


def random_text(rng, maxlines=40, maxdepth=6):
    lines = []
    stack = []
    n = rng.randint(0, maxlines)
    while len(lines) < n:
        p = rng.random()
        ind = "".join(rng.choice(_WS) for _ in range(rng.randint(0, 2))) if rng.random() < 0.4 else ""
        trail = rng.choice(_WS) if rng.random() < 0.2 else ""
        if p < 0.30:
            val = rng.choice(["", _tok(rng), _tok(rng) + " " + _tok(rng), "$$" + _tok(rng), "(" + _tok(rng),
                              "<" + _tok(rng) + ">", "# " + _tok(rng), "x$$", "%" + _tok(rng)])
            sep = rng.choice(_WS) if val else ""
            key = _tok(rng, "/$=:<>%#").lstrip("<%#") or "k"
            lines.append(ind + key + sep + val + trail)
        elif p < 0.45 and len(stack) < maxdepth:
            t = _tok(rng)
            nm = rng.choice(["", "", " " + _tok(rng), "  " + _tok(rng, "/")])
            lines.append(ind + "<" + t + nm + rng.choice(["", "", " "]) + ">" + trail)
            stack.append(t)
        elif p < 0.60 and stack:
            t = stack.pop()
            t2 = t.swapcase() if rng.random() < 0.3 else t
            lines.append(ind + "</" + t2 + rng.choice(["", "", " "]) + ">" + trail)
        elif p < 0.68:
            t = _tok(rng)
            nm = rng.choice(["", " " + _tok(rng)])
            lines.append(ind + "<" + t + nm + rng.choice(["/", " /", "/"]) + ">" + trail)
        elif p < 0.74:
            lines.append(ind + rng.choice(["", "#", "# comment <a>", "#%import x"]) + trail)
        elif p < 0.80:
            lines.append(ind + "%import " + rng.choice(["p", "q.r", "P", "p$$", "x y"]) + trail)
        elif p < 0.90:
            # one deliberately odd line
            lines.append("".join(rng.choice(_ODD) for _ in range(rng.randint(1, 7))))
        else:
            lines.append(ind + rng.choice(["%define a b", "%include f", "%import", "%bogus", "% import p",
                                           "</" + _tok(rng) + ">", "<" + _tok(rng), "k $x", "k $"]) + trail)
    # most texts get all sections closed so that a good share is accepted
    if rng.random() < 0.8:
        while stack:
            lines.append("</" + stack.pop() + ">")
    return lines


def repo_texts():
    """Configuration texts that ship with the repository (test inputs, documentation examples), as they are and
    with the lines the schema-less loader refuses (%define, %include, references) taken out."""
    from ..core import REPO
    out = []
    for top in (os.path.join(REPO, "src", "ZConfig"), os.path.join(REPO, "docs")):
        for dirpath, _, files in sorted(os.walk(top)):
            for fn in sorted(files):
                if not fn.endswith(".conf"):
                    continue
                try:
                    with open(os.path.join(dirpath, fn), encoding="utf-8", newline="") as f:
                        lines = f.read().split("\n")
                except (OSError, UnicodeDecodeError):
                    continue
                if lines and lines[-1] == "":
                    lines.pop()
                out.append(lines)
                plain = [l for l in lines if not l.strip().startswith(("%define", "%include")) and "$" not in l]
                if plain != lines:
                    out.append(plain)
    return out


def record_v(rng, lines=None):
    lines = random_text(rng) if lines is None else lines
    text = text_of(lines, rng.randint(0, 1))
    got, top = observe_text(text)
    rec = {"txt": [enc_chars(l) for l in lines], "_text": text, "_lines": lines, "_got": got, "_top": top}
    rec["out"] = encode_outcome(got)
    return rec


def enc_tree(n):
    return {"type": enc(n["type"]), "name": enc(n["name"]),
            "keys": [[enc(k), [enc(x) for x in vs]] for k, vs in n["keys"].items()],
            "secs": [enc_tree(s) for s in n["secs"]]}


def encode_outcome(got):
    if got["r"] == "ok":
        return {"r": "ok", "kind": "", "tree": enc_tree(got["tree"]), "imports": [enc(i) for i in got["imports"]]}
    return {"r": "err", "kind": got["kind"], "tree": enc_tree({"type": "", "name": "", "keys": {}, "secs": []}),
            "imports": []}


def header_for(recs):
    chars = set()
    for r in recs:
        chars.update(r["_text"])
        if r.get("_s1"):
            chars.update(r["_s1"])
    lower, space = ext_tables(chars)
    lower["~u0;"] = "~u0;"
    return {"lower": lower, "space": sorted(space) + ["~u0;"]}


def run(chk):
    quick = chk.tier == "quick"
    chk.rule = ("G level 1: every line up to L16 characters over the 16-class alphabet (< > / % # ( ) $ a B 1 - SP TAB "
                "U+3000 E-acute), longer lines over 8- and 5-character sub-alphabets, each alone, inside <a>..</a> and "
                "(openers) followed by the closer the specification derives; level 2: every text of <= MaxLines lines over "
                "the representative lines; V: random texts (<= 40 lines, depth <= 6). All enumerated texts are distinct; "
                "non-trivial = at least one line that is neither blank nor a comment.")
    run_g_levels(chk, quick, replay_g)
    chk.exhaustive = True
    # V
    rng = random.Random(chk.seed * 7919 + 3)
    total = 6000 if quick else 150000
    batch = 15000
    done = 0
    vcfg = flow.cfg_text(constants={"N": "@N@"}, invariants=["Verdict"],
                         overrides={"ExtLower": "VExtLower", "ExtSpace": "VExtSpace"})
    acc = 0
    while done < total:
        k = min(batch, total - done)
        recs = [record_v(rng) for _ in range(k)]
        if done == 0:
            shipped = repo_texts()
            recs += [record_v(rng, lines) for lines in shipped]
            chk.note("v_repository_texts", len(shipped))
            # physical lines far longer than any buffer: a line is a line however long it is
            big = [["# " + "c" * 8200, "k v"], ["k " + "v" * 8200 + " tail  end"],
                   ["<" + "t" * 8200 + " N>", "k v", "</" + "T" * 8200 + ">"]]
            recs += [record_v(rng, lines) for lines in big]
        acc += sum(1 for r in recs if r["_got"]["r"] == "ok")

        def describe(i, rec, clause, verdict):
            got2, _ = observe_text(rec["_text"])
            if got2 != rec["_got"]:
                raise MachineryError("recorded execution not reproducible")
            return {"input": {"text": rec["_text"]}, "observed": rec["_got"],
                    "spec_outcome": verdict and verdict.get("want"), "class": {"clause": clause}}

        flow.run_v(chk, "MC_C03_V", vcfg, recs, describe, header=header_for(recs),
                   nontrivial=lambda rec, v: bool(rec["_text"].strip()))
        if done == 0:
            chk.sample({"V_text": recs[0]["_text"], "V_outcome": recs[0]["_got"]})
        done += k
    chk.note("v_records", total)
    chk.note("v_accepted", acc)
    chk.assumptions += [
        "str.lower()/str.isspace() of non-ASCII characters are environment tables computed by calling Python directly",
        "lines are separated by '\\n' only (io.StringIO.readline)",
    ]


def replay(path):
    import json
    with open(path) as f:
        d = json.load(f)
    got, _ = observe_text(d["input"]["text"])
    print("text   :", repr(d["input"]["text"]))
    print("now    :", got)
    print("before :", d["observed"])
    print("spec   :", d.get("spec") or d.get("spec_outcome"))
    return 0
