"""C17 - schema-less configurations survive serialisation and re-reading.

Specification: spec/ZLines.tla + spec/mc/MC_C17_V.tla (the round trip as a
relation).  Every text of the level-2 corpus (all texts of <= MaxLines lines
over representative lines, including values with '$$', leading grammar
characters, empty values, repeated keys, mixed case, nested and empty sections,
imports at any depth) and random texts are loaded with the schema-less loader,
printed, reloaded and printed again on the real code; TLC validates each
recorded round trip against the specification.
"""
import io
import itertools
import random

from .. import flow
from ..chars import enc, enc_chars
from ..core import MachineryError
from . import c03

REPS_QUICK = ["<a>", "<A N>", "</a>", "<b/>", "<a x/>", "k v", "k", "k v", "K $$w", "j (x  y",
              "# c", "", "%import p", "%import Q.r", "%define x y", "%include f", "j <v>", "m x$$",
              "<b>", "</b>", "<a/ >", "</a/>", "<a n/ >",
              # characters at which str.splitlines() - but neither the parser nor a '\n'.join - ends a line
              "k a\x0cb", "m x\u2028y z",
              # two literal dollars side by side; a key that begins with U+FEFF (not white space: an ordinary
              # character, on whatever line it stands)
              "k $$$$", "\ufeffq v",
              # a directive word ends at any white space, not just at a blank
              "%define\tx y",
              # an environment variable that is defined and empty: '%include' of nothing is still an '%include'
              "%include $(ZCV_EMPTY)", "k a$(ZCV_EMPTY)b"]
REPS_MORE = ["k # v", "k %v", "<a/ n/ >", "%import p$$$$", "%import p$$", "é É", "<é É>", "</é>", "k  v   w",
             "\ufeff<a>", "\ufeff# c", "%import \ufeffp", "%include\tf", "%import\tp", "%define\u3000x y"]


ENV = {"ZCV_EMPTY": ""}      # the environment of every recorded round trip (MC_C17_V!VNoDefs says the same)


def round_trip(text):
    got, top = c03.observe_text(text, ENV)
    rec = {"out": c03.encode_outcome(got), "_got": got, "_text": text}
    empty = c03.encode_outcome({"r": "err", "kind": "none"})
    if got["r"] != "ok":
        rec.update({"s1": [], "out2": empty, "s2same": True, "_s1": None})
        return rec
    try:
        s1 = str(top)
    except Exception as e:
        rec.update({"s1": [], "out2": dict(empty, kind="str-raised:" + type(e).__name__), "s2same": False,
                    "_s1": None})
        return rec
    got2, top2 = c03.observe_text(s1, ENV)
    s2same = False
    if got2["r"] == "ok":
        try:
            s2same = (str(top2) == s1)
        except Exception:
            s2same = False
    rec.update({"s1": [enc_chars(l) for l in s1.split("\n")], "out2": c03.encode_outcome(got2),
                "s2same": s2same, "_s1": s1, "_got2": got2})
    return rec


def make_record(lines, variant=0):
    text = c03.text_of(lines, variant)
    rec = round_trip(text)
    rec["txt"] = [enc_chars(l) for l in lines]
    rec["_lines"] = lines
    return rec


def classify_case(rec):
    """Class of a rejected round trip, used to match known findings."""
    text = rec["_text"]
    return {"dollar_in_value": "$" in text,
            "slash_before_close": "/ >" in text or "/\t>" in text}


def run(chk):
    quick = chk.tier == "quick"
    reps = REPS_QUICK if quick else REPS_QUICK + REPS_MORE
    maxlines = 3 if quick else 4
    chk.rule = ("every text of <= %d lines over %d representative lines (all distinct), plus random texts; each is "
                "loaded, printed, reloaded and printed again on the real code and the recorded round trip validated by "
                "TLC; non-trivial = the first load is accepted and the tree is not empty" % (maxlines, len(reps)))
    vcfg = flow.cfg_text(constants={"N": "@N@"}, invariants=["Verdict17"],
                         overrides={"ExtLower": "VExtLower", "ExtSpace": "VExtSpace", "NoDefs": "VNoDefs"})

    def describe(i, rec, clause, verdict):
        again = round_trip(rec["_text"])
        if again["out"] != rec["out"] or again["s1"] != rec["s1"]:
            raise MachineryError("recorded round trip not reproducible")
        cls = classify_case(rec)
        cls["clause"] = clause.split(":")[0]
        return {"input": {"text": rec["_text"]}, "first_load": rec["_got"], "printed": rec["_s1"],
                "reload": rec.get("_got2"), "reprint_identical": rec["s2same"], "class": cls}

    def nontrivial(rec, v):
        g = rec["_got"]
        return g["r"] == "ok" and (g["tree"]["keys"] or g["tree"]["secs"] or g["imports"])

    def batches():
        buf = []
        for n in range(0, maxlines + 1):
            # (four lines only over the first thirty representative lines: 43^4 round trips would not fit the budget)
            for combo in itertools.product(reps if n <= 3 else reps[:30], repeat=n):
                buf.append(make_record(list(combo)))
                if len(buf) >= 20000:
                    yield buf
                    buf = []
        if buf:
            yield buf

    acc = tot = 0
    first = True
    for recs in batches():
        tot += len(recs)
        acc += sum(1 for r in recs if r["_got"]["r"] == "ok")
        flow.run_v(chk, "MC_C17_V", vcfg, recs, describe, header=c03.header_for(recs), nontrivial=nontrivial)
        if first:
            first = False
            for r in recs:
                if r["_got"]["r"] == "ok" and r["_got"]["tree"]["secs"]:
                    chk.sample({"text": r["_text"], "printed": r["_s1"]})
                    break
    chk.exhaustive = True
    chk.note("corpus_texts", tot)
    chk.note("corpus_accepted", acc)
    rng = random.Random(chk.seed * 7919 + 17)
    total = 6000 if quick else 100000
    done = 0
    racc = 0
    while done < total:
        k = min(15000, total - done)
        recs = []
        for _ in range(k):
            lines = c03.random_text(rng)
            recs.append(make_record(lines, rng.randint(0, 1)))
        if done == 0:
            # the configuration texts that ship with the repository (as they are: refused where they use %define /
            # %include; and with those lines taken out)
            recs += [make_record(lines, 0) for lines in c03.repo_texts()]
            # a physical line of just under 8192 characters two sections deep: however str() indents it, it is one line
            # (thorough tier: validating 8 000-character lines costs TLC two minutes; C03 reads such lines in its quick tier)
            if not quick:
                recs.append(make_record(["<a>", "<b>", "path " + "v" * 8185, "</b>", "</a>"], 0))
        racc += sum(1 for r in recs if r["_got"]["r"] == "ok")
        flow.run_v(chk, "MC_C17_V", vcfg, recs, describe, header=c03.header_for(recs), nontrivial=nontrivial)
        done += k
    chk.note("random_texts", total)
    chk.note("random_accepted", racc)
    chk.assumptions += ["str.lower()/str.isspace() of non-ASCII characters: environment tables",
                        "the printed text is split into lines at '\\n' only"]


def replay(path):
    import json
    with open(path) as f:
        d = json.load(f)
    rec = round_trip(d["input"]["text"])
    print("text     :", repr(d["input"]["text"]))
    print("first    :", rec["_got"])
    print("printed  :", repr(rec["_s1"]))
    print("reload   :", rec.get("_got2"))
    print("reprint= :", rec["s2same"])
    return 0
