"""C08 - a rejected configuration names the resource and line that caused the
rejection.

Specification: the error positions computed by ZLoadFn (current line of the
current frame for syntax errors, the ValueInfo position for conversion errors,
the closing line - with the repair of cfgparser.end_section - for errors
revealed when a section closes, for both spellings of an empty section).
Scenarios: an accepted random text of a family schema, one injected fault of a
listed kind at a random position, then 0..2 balanced cuts into %include-d
files, so that the culprit line (resource, 1-based number) is known by
construction.  TLC checks ErrorPositionIsCulprit on the specification; the
real exception must carry the same line, the same resource, and for a
conversion error the offending text and a ValueError.
"""
import random

from .. import project, scenario, schemas, textgen
from ..textgen import Line
from . import c06

KINDS = ["malformed", "baddirective", "undefref", "malformed$", "unknownkey", "repeatkey", "badkey", "badvalue",
         "badheader", "missingreq", "missingreq-empty", "surplus", "directive$"]


def container_at(lines, p):
    if p == 0:
        return ""
    l = lines[p - 1]
    return l.info["type"] if l.info["role"] == "open" else l.info["cont"]


def block_end(lines, i):
    """Index of the close line matching the open line at i."""
    depth = 0
    for j in range(i, len(lines)):
        r = lines[j].info["role"]
        if r == "open":
            depth += 1
        elif r == "close":
            depth -= 1
            if depth == 0:
                return j
    return None


def enclosing_close(lines, i):
    """Index of the line that closes the section containing line i (None at top level)."""
    depth = 0
    for j in range(i + 1, len(lines)):
        r = lines[j].info["role"]
        if r == "open":
            depth += 1
        elif r == "close":
            if depth == 0:
                return j
            depth -= 1
    return None


def inject(rng, rec, lines, kind):
    """-> (lines', culprit Line, kinds, value) or None."""
    lines = list(lines)
    keys = [i for i, l in enumerate(lines) if l.info["role"] == "key"]

    def ins(text, at=None):
        p = rng.randint(0, len(lines)) if at is None else at
        c = Line(text, role="fault", cont=container_at(lines, p))
        lines.insert(p, c)
        return c

    def contT(name):
        return rec["top"] if name == "" else rec["types"][name]

    if kind == "malformed":
        c = ins(rng.choice(["<bad", "</bad", "(oops", "<a b c>", "< a>"]))
        return lines, c, ["syntax"], ""
    if kind == "baddirective":
        c = ins(rng.choice(["%bogus x", "%define", "%include", "% define a b", "%import"]))
        return lines, c, ["syntax"], ""
    if kind in ("undefref", "malformed$"):
        if not keys:
            return None
        i = rng.choice(keys)
        key = lines[i].strip().split()[0]
        val = "$undefined_name" if kind == "undefref" else rng.choice(["x$", "${a", "$-", "$(", "a$ b"])
        ind = lines[i][:len(lines[i]) - len(lines[i].lstrip())]
        c = Line(ind + key + " " + val, **lines[i].info)
        lines[i] = c
        return lines, c, ["syntax"] if kind == "undefref" else ["substsyntax"], ""
    if kind == "directive$":
        # the argument of %include / %import is $-substituted like a value: an undefined or malformed reference
        # there is reported at the directive's line
        und = rng.random() < 0.5
        arg = rng.choice(["$undefined_name", "${undefined_name}.conf", "x/$undefined_name"]) if und else \
            rng.choice(["x$", "${a", "$-", "$(", "a$ b"])
        c = ins("%s %s" % (rng.choice(["%include", "%import"]), arg))
        return lines, c, ["syntax"] if und else ["substsyntax"], ""
    if kind == "unknownkey":
        p = rng.randint(0, len(lines))
        T = contT(container_at(lines, p))
        if any(ch["kind"] in ("key", "multikey") and ch["name"] == "+" for ch in T["children"]):
            return None
        if any(ch["name"] == "zzunknown" for ch in T["children"]):
            return None
        c = ins("zzunknown v1", at=p)
        return lines, c, ["config", "syntax"], ""
    if kind == "repeatkey":
        cands = [i for i in keys if lines[i].info["child"]["kind"] == "key"]
        if not cands:
            return None
        i = rng.choice(cands)
        c = Line(str(lines[i]), **lines[i].info)
        lines.insert(i + 1, c)
        return lines, c, ["config", "syntax"], ""
    if kind == "badkey":
        c = ins("9bad v1")
        return lines, c, ["conv"], "9bad"
    if kind == "badvalue":
        from .. import refconv
        cands = [i for i in keys if refconv.bad_values(lines[i].info["child"]["dt"])]
        if not cands:
            return None
        i = rng.choice(cands)
        bad = rng.choice(refconv.bad_values(lines[i].info["child"]["dt"]))
        key = lines[i].strip().split()[0]
        ind = lines[i][:len(lines[i]) - len(lines[i].lstrip())]
        c = Line((ind + key + " " + bad).rstrip() if bad == "" else ind + key + " " + bad, **lines[i].info)
        lines[i] = c
        return lines, c, ["conv"], bad
    if kind == "badheader":
        absn = sorted(n for n, t in rec["types"].items() if t["abstract"])
        conc = sorted(n for n, t in rec["types"].items() if not t["abstract"])
        opts = ["<nosuchtype x>", "<nosuchtype/>"]
        if absn:
            opts += ["<%s x>" % absn[0], "<%s x/>" % absn[0]]
        if conc:
            opts += ["<%s *>" % conc[0], "<%s +/>" % conc[0]]
        c = ins(rng.choice(opts))
        return lines, c, ["syntax"], ""
    if kind == "missingreq":
        cands = [i for i in keys if lines[i].info["child"]["req"] and lines[i].info["cont"] != ""
                 and lines[i].info["child"]["kind"] == "key" and lines[i].info["child"]["name"] != "+"]
        if not cands:
            return None
        i = rng.choice(cands)
        j = enclosing_close(lines, i)
        if j is None:
            return None
        c = lines[j]
        del lines[i]
        return lines, c, ["syntax", "config"], ""
    if kind == "missingreq-empty":
        cands = [i for i, l in enumerate(lines) if l.info["role"] == "open"
                 and any(ch["req"] and not (ch["kind"] == "multikey" and ch["dflt"] and ch["name"] != "+")
                         for ch in rec["types"][l.info["type"]]["children"])]
        if not cands:
            return None
        i = rng.choice(cands)
        j = block_end(lines, i)
        head = str(lines[i]).rstrip()
        c = Line(head[:-1] + "/>", **dict(lines[i].info, role="empty"))
        lines[i:j + 1] = [c]
        return lines, c, ["syntax", "config"], ""
    if kind == "surplus":
        cands = [i for i, l in enumerate(lines) if l.info["role"] in ("open", "empty")
                 and (l.info["child"]["kind"] == "section" or l.info.get("name"))]
        if not cands:
            return None
        i = rng.choice(cands)
        j = i if lines[i].info["role"] == "empty" else block_end(lines, i)
        copy = [Line(str(l), **l.info) for l in lines[i:j + 1]]
        lines[j + 1:j + 1] = copy
        return lines, copy[-1], ["syntax", "config"], ""
    raise KeyError(kind)


def locate(files, culprit):
    for name, ls in files.items():
        for i, l in enumerate(ls):
            if l is culprit:
                return name, i + 1
    return None


_LOADERS = {}


def _one_loader(schema, ovs):
    # one ConfigLoader per schema object and worker process: every scenario that comes its way is a rejected load,
    # and the scratch directories are recycled, so the same URLs come back after failed loads of them
    import ZConfig.loader
    if id(schema) not in _LOADERS:
        _LOADERS[id(schema)] = (schema, ZConfig.loader.ConfigLoader(schema))
    return _LOADERS[id(schema)][1]


def judge(got, c):
    if got["r"] != "err":
        return "accepted"
    if got["kind"].startswith("internal:"):
        return "internal-error"
    if got["kind"] not in c["kinds"]:
        return "error-kind"
    if got["line"] != c["line"]:
        return "line"
    if got["res"] != c["file"]:
        return "resource"
    if got["kind"] == "conv" and (got["value"] != c["value"] or got["exc"] not in ("ValueError", "DataConversionError")):
        return "conversion-error-value"
    return None


def compare(ws, sch, rec, item, emit):
    got, _ = scenario.run_real(ws, sch, rec, item)
    c = item["meta"]["culprit"]
    why = judge(got, c)
    if why is None and not item["opts"]:
        # the rejection says the same when the load goes through a loader object that has rejected other texts before
        got, _ = scenario.run_real(ws, sch, rec, item, loader_factory=_one_loader)
        why = judge(got, c)
        if why is not None:
            why = "long-lived loader: " + why
    if why is None and len(item["files"]) == 1 and not item["opts"]:
        # the same text from an open file object without a name: there is no URL to carry, the line is the same
        import io
        import ZConfig
        text = "".join(str(l) + "\n" for l in item["files"][item["main"]])
        try:
            ZConfig.loadConfigFile(sch, io.StringIO(text))
            got = {"r": "ok"}
        except Exception as e:
            got = project.exc_outcome(e)
        if got["r"] != "err":
            why = "url-less: accepted"
        elif got["kind"] not in c["kinds"]:
            why = "url-less: error-kind"
        elif got["line"] != c["line"]:
            why = "url-less: line"
        elif got["kind"] == "conv" and (got["value"] != c["value"] or got["exc"] not in ("ValueError", "DataConversionError")):
            why = "url-less: conversion-error-value"
    if why is None and len(item["files"]) == 1 and not item["opts"]:
        # the same file opened by the caller and handed over together with a URL for it: that URL is the resource's
        import os
        import ZConfig
        given = "file:///zcv-given/%s" % os.path.basename(item["main"])
        base = ws.materialise(item["files"])
        try:
            ZConfig.loadConfigFile(sch, open(os.path.join(base, item["main"]), encoding="utf-8", newline="\n"), given)
            got = {"r": "ok"}
        except Exception as e:
            got = project.exc_outcome(e)
        if got["r"] != "err":
            why = "file+url: accepted"
        elif got["kind"] not in c["kinds"]:
            why = "file+url: error-kind"
        elif got["line"] != c["line"]:
            why = "file+url: line"
        elif got.get("url") != given:
            why = "file+url: resource"
    if why is None:
        return None
    return {"clause": why, "observed": got, "culprit": c,
            "class": {"clause": why, "fault": c["fault"], "spelling_empty": c.get("empty", False),
                      "observed_line": got.get("line") if why == "line" else None}}


def run(chk):
    quick = chk.tier == "quick"
    rng = random.Random(chk.seed * 7919 + 8)
    docs = schemas.interaction_schemas()
    # a datatype that fails with a DataConversionError of its own (it is a ValueError): the rejection still names
    # the line of the value that could not be converted - also when that only shows as the section closes
    from ..schemas import K, MK, MSEC, SEC, SCHEMA, TYPE
    docs = list(docs) + [SCHEMA(types=[TYPE("f", [K("label"), K("rules", "dcerr"), MK("more", "dcerr")]),
                                       TYPE("chain", [MSEC("f", "+", "fs"), K("r1", "dcerr")])],
                                children=[SEC("chain", "*", "chain"), K("title"), K("r0", "dcerr"), MSEC("f", "*", "fs")])]
    per = 150 if quick else 1500
    chk.rule = ("for each family schema: random accepted texts, one injected fault of each of %d kinds at a random position "
                "(culprit known by construction), then 0..2 balanced cuts into included files; all scenarios distinct by "
                "construction (random); non-trivial = every scenario (each has exactly one fault)" % len(KINDS))
    # pass 1: base texts, keep those the specification accepts
    pre = scenario.Scenarios(docs)
    bases = []
    for sid, doc in enumerate(docs):
        for b in range(per):
            t = textgen.Gen(rng, pre.recs[sid]).text()
            bases.append((sid, t))
            pre.add(sid, {"d/main.conf": t})
    pouts = pre.run_spec(chk)
    bases = [b for b, o in zip(bases, pouts) if o["o"]["r"] == "ok"]
    chk.note("accepted_base_texts", len(bases))
    sc = scenario.Scenarios(docs)
    byk = {}
    for sid, base in bases:
        rec = sc.recs[sid]
        if True:
            for kind in KINDS:
                r = inject(rng, rec, base, kind)
                if r is None:
                    continue
                lines, culprit, kinds, value = r
                if rng.random() < 0.3:
                    # an earlier comment holding a character that str.splitlines() - but not readline() - breaks at
                    odd = rng.choice(["\x0c", "\x85", "\u2028", "\r", "\x0b", "\x1c"])
                    at = rng.randint(0, max(0, lines.index(culprit)))
                    lines = lines[:at] + [Line("# page" + odd + "break", role="blank", cont=container_at(lines, at))] + lines[at:]
                files = {"d/main.conf": lines}
                resolve = {}
                ncuts = rng.choice([0, 0, 1, 2])
                if ncuts:
                    c = c06.cut(rng, files, ncuts)
                    if c is not None:
                        files, _, resolve = c
                loc = locate(files, culprit)
                if loc is None:
                    continue
                sc.add(sid, files, meta={"culprit": {"file": loc[0], "line": loc[1], "kinds": kinds, "value": value,
                                                     "fault": kind, "empty": culprit.info.get("role") == "empty"},
                                         "resolve": resolve})
                byk[kind] = byk.get(kind, 0) + 1
    outs = sc.run_spec(chk)
    scenario.replay_all(chk, sc, outs, compare)
    chk.sample({"files": sc.items[7]["files"], "culprit": sc.items[7]["meta"]["culprit"]})
    chk.note("scenarios_by_fault_kind", byk)
    chk.assumptions += ["the base texts were generated as conforming; scenarios whose base is not accepted still have a "
                        "well-defined first error only if the injected fault comes first - the specification decides "
                        "(ErrorPositionIsCulprit is checked by TLC on every scenario before the code is consulted)"]


def replay(path):
    import json
    print(json.dumps(json.load(open(path)), indent=1)[:6000])
    return 0
