"""C04 - $-substitution computes exactly the documented replacement function.

Specification: spec/ZSubst.tla (scanner machine + declarative token list).
G: TLC enumerates all strings up to a length bound over the property's
   ten-character alphabet x mapping kinds x environment kinds, checks
   MachineIsReplacement / IdentityWithoutDollar / NoRescan and emits every
   terminal state; each is replayed on ZConfig.substitution.substitute/isname.
V: random Unicode strings with explicit mapping and environment tables are run
   on the real code, recorded and validated by TLC (MC_C04_V).
"""
import os
import random
import re

from .. import flow
from ..chars import enc, enc_chars
from ..core import MachineryError

_ident_rx = re.compile(r"[A-Za-z_][A-Za-z0-9_]*")


def candidates(src, full=True):
    """ASCII identifier-like substrings of src (what any reasonable scanner
    could look up)."""
    out = set()
    n = len(src)
    for m in _ident_rx.finditer(src):
        run = m.group(0)
        if full and len(run) <= 8:
            for i in range(len(run)):
                for j in range(i + 1, len(run) + 1):
                    sub = run[i:j]
                    if _ident_rx.fullmatch(sub):
                        out.add(sub)
        else:
            out.add(run)
            for k in range(1, min(4, len(run))):
                out.add(run[:k])
                if _ident_rx.fullmatch(run[k:]):
                    out.add(run[k:])
            out.add(run[:-1]) if len(run) > 1 else None
    return out


def value_for(lname):
    return "[" + lname + "]$a${b}$$"


def make_mapping(src, mk):
    d = {}
    if mk == "none":
        return d
    for w in candidates(src):
        lw = w.lower()
        if w != lw:
            d[w] = "WRONG"
    for w in candidates(src):
        lw = w.lower()
        if mk == "all" or lw[0] == "a":
            d[lw] = value_for(lw)
        elif lw[0] == "_":
            d[lw] = None
    return d


def make_env(src, ek):
    env = {}
    if ek == "none":
        return env
    cands = candidates(src)
    for w in cands:
        for v in (w.swapcase(), w.lower(), w.upper()):
            if v != w:
                env[v] = "WRONGENV"
    for w in cands:
        env[w] = "" if ek == "empty" else "E{" + w + "}$$"
    return env


class EnvPatch:
    """Set exactly the given variables for the duration of a call; every
    identifier-like name of the source that is not given is removed."""

    def __init__(self, names, env):
        self.names = set(names) | set(env)
        self.env = env

    def __enter__(self):
        self.saved = {n: os.environ.get(n) for n in self.names}
        for n in self.names:
            if n in self.env:
                os.environ[n] = self.env[n]
            else:
                os.environ.pop(n, None)

    def __exit__(self, *a):
        for n, v in self.saved.items():
            if v is None:
                os.environ.pop(n, None)
            else:
                os.environ[n] = v


def observe(src, mapping, env):
    import ZConfig
    from ZConfig.substitution import substitute, isname
    with EnvPatch(candidates(src), env):
        try:
            v = substitute(src, mapping)
            out = {"r": "ok", "v": v, "name": [], "source": []}
        except ZConfig.SubstitutionReplacementError as e:
            out = {"r": "miss", "v": "", "name": list(e.name), "source": list(e.source)}
        except ZConfig.SubstitutionSyntaxError:
            out = {"r": "syn", "v": "", "name": [], "source": []}
        except Exception as e:  # anything else is outside the contract
            out = {"r": "other:" + type(e).__name__, "v": "", "name": [], "source": []}
    try:
        nm = bool(isname(src))
    except Exception as e:
        nm = "other:" + type(e).__name__
    return out, nm


def replay_g(v):
    src = "".join(v["src"])
    want = v["o"]
    out, nm = observe(src, make_mapping(src, v["mk"]), make_env(src, v["ek"]))
    why = None
    if out["r"] != want["r"]:
        why = "outcome-kind"
    elif want["r"] == "ok" and out["v"] != want["v"]:
        why = "result-text"
    elif want["r"] == "miss" and "".join(out["name"]).lower() != "".join(want["name"]).lower():
        why = "missing-name"
    elif (want["r"] == "miss" and "".join(out["name"]) != "".join(want["name"])
          and ("$(" + "".join(want["name"]) + ")") in src
          and not re.search(r"\$\{?" + re.escape("".join(want["name"])) + r"(?![A-Za-z0-9_])", src, re.I)):
        why = "missing-name"      # an environment variable keeps its case, in the error too
    elif want["r"] == "miss" and "".join(out["source"]) != src:
        why = "error-source"
    elif nm != v["isname"]:
        why = "isname"
    if why is None:
        return None
    return {"clause": why, "input": {"src": src, "mk": v["mk"], "ek": v["ek"]},
            "spec": want, "observed": out, "observed_isname": nm,
            "class": {"clause": why}}


def nontrivial_g(v):
    return True if "$" in v["src"] else None


# -- direction V ------------------------------------------------------------
_POOL = (["$"] * 10 + ["{", "}", "(", ")"] * 3 + list("aAbBzZ_019") * 2 +
         list(" \t-.:/\\\"'#%<>") + ["é", "É", "ß", "Ж", "中",
                                    "　", "\U0001F600", "́", "ı", "K"])
_VALS = ["", "x", "$", "$$", "$a", "${b}", "$(c)", "v w", "é$", "}", ")"]


_TRAIL = ["\n", "\r", "\r\n", "\n\n", " ", "\t", "\x0b", "\x0c", "\u2028", "\x85", "\x00", "\x1c"]


def random_case(rng, maxlen):
    n = rng.randint(0, maxlen) if rng.random() < 0.8 else rng.randint(0, 6)
    if rng.random() < 0.06:
        # a name (or a reference to one) with white space / a line end stuck to it: "abc\n" is no name
        name = rng.choice(["a", "abc", "_", "A1", "b_2"])
        src = rng.choice(["", "$", "${"]) + name + rng.choice(_TRAIL)
        if src.startswith("${"):
            src += "}"
    elif rng.random() < 0.5:
        # grammar-shaped: sequences of constructs with noise
        parts = []
        while sum(map(len, parts)) < n:
            k = rng.random()
            name = "".join(rng.choice("aAbB_1zZ09") for _ in range(rng.randint(0, 4)))
            if k < 0.2:
                parts.append("$" + name)
            elif k < 0.4:
                parts.append("${" + name + rng.choice(["}", "}", "}", "", ")", " }"]))
            elif k < 0.55:
                parts.append("$(" + name + rng.choice([")", ")", ")", "", "}"]))
            elif k < 0.65:
                parts.append("$$")
            else:
                parts.append("".join(rng.choice(_POOL) for _ in range(rng.randint(1, 4))))
        src = "".join(parts)
    else:
        src = "".join(rng.choice(_POOL) for _ in range(n))
    cands = sorted(candidates(src, full=False))
    mapping = {}
    env = {}
    for w in cands:
        lw = w.lower()
        p = rng.random()
        if p < 0.6:
            mapping[lw] = rng.choice(_VALS) + lw
        elif p < 0.7:
            mapping[lw] = None
        if w != lw and rng.random() < 0.7:
            mapping[w] = "WRONG" + rng.choice(_VALS)
        if rng.random() < 0.6:
            env[w] = rng.choice(_VALS) + "E" + w
        if w.swapcase() != w and rng.random() < 0.6 and w.swapcase() not in env:
            env[w.swapcase()] = "WRONGENV"
    # entries for names that are candidates in another spelling must stay as chosen
    return src, mapping, env


def record_v(rng, maxlen):
    src, mapping, env = random_case(rng, maxlen)
    out, nm = observe(src, dict(mapping), env)
    names = sorted(candidates(src, full=False) | set(env))
    rec = {
        "src": enc_chars(src),
        "mtab": [[k, v is not None, enc(v) if v is not None else ""] for k, v in sorted(mapping.items())],
        "etab": [[k, k in env, enc(env.get(k, ""))] for k in names],
        "out": {"r": out["r"], "v": enc(out["v"]), "name": enc_chars(out["name"]),
                "source": enc_chars(out["source"])},
        "_out": out,
        "isname": nm if isinstance(nm, bool) else False,
        "_src": src, "_mapping": mapping, "_env": env, "_nm": nm,
    }
    return rec


def run(chk):
    quick = chk.tier == "quick"
    maxlen = 5 if quick else 6
    chk.rule = ("G: every string of length <= %d over {$ { } ( ) a B _ 1 -} x mapping kinds "
                "{none, all, part} x environment kinds {none, set} (kinds varied only for strings "
                "containing '$'), all distinct by construction; non-trivial = the string contains '$' "
                "(the scanner takes at least one non-identity action). V: random Unicode strings "
                "(length <= 200) with explicit tables; non-trivial = contains '$'." % maxlen)
    cfg = flow.cfg_text(constants={"MaxLen": maxlen},
                        invariants=["TypeOK", "MachineIsReplacement", "IdentityWithoutDollar", "Emit"],
                        properties=["NoRescan"])
    r, n = flow.run_g(chk, "MC_C04_G", cfg, replay_g, history_ok=True,
                      nontrivial=nontrivial_g,
                      sample_every=50021, timeout=3000)
    chk.exhaustive = True
    chk.note("g_scenarios", n)
    chk.note("g_tlc_wall_s", round(r.wall, 1))
    # direction V
    rng = random.Random(chk.seed * 7919 + 4)
    total = 20000 if quick else 400000
    batch = 50000
    done = 0
    vcfg = flow.cfg_text(constants={"N": "@N@"}, invariants=["Verdict"],
                         overrides={"SrcOf": "VSrcOf", "MTabOf": "VMTabOf", "ETabOf": "VETabOf"})
    while done < total:
        k = min(batch, total - done)
        recs = [record_v(rng, 200) for _ in range(k)]

        def describe(i, rec, clause, verdict):
            out2, nm2 = observe(rec["_src"], dict(rec["_mapping"]), rec["_env"])
            cls = {"clause": clause}
            if out2 != rec["_out"]:
                # substitute() is a function of its arguments and the environment: another answer to the same
                # question is a disagreement in its own right, not a fault of the recording
                clause = clause + " (asked again with the same arguments the answer was another one)"
                cls["depends_on_history"] = True
            return {"input": {"src": rec["_src"], "mapping": rec["_mapping"], "env": rec["_env"]},
                    "observed": rec["_out"], "observed_again": out2, "observed_isname": rec["_nm"],
                    "spec_outcome_kind": verdict and verdict.get("want"), "clause": clause,
                    "class": cls}

        flow.run_v(chk, "MC_C04_V", vcfg, recs, describe,
                   nontrivial=lambda rec, v: "$" in rec["_src"])
        if done == 0:
            chk.sample({"V": {k: v for k, v in recs[0].items() if not k.startswith("_")}})
        done += k
    chk.note("v_records", total)
    chk.assumptions += [
        "os.environ / dict.get are Python, not ZConfig (environment of the specification)",
        "random strings avoid nothing: any code point may occur; TLC compares strings by equality only",
    ]


def replay(path):
    import json
    with open(path) as f:
        d = json.load(f)
    if d.get("direction") == "G":
        res = replay_g(d["emitted"])
    else:
        i = d["input"]
        out, nm = observe(i["src"], dict(i["mapping"]), i["env"])
        res = None if out == d["observed"] else {"observed_now": out}
        print("observed now:", out, "recorded:", d["observed"])
        return 0
    print("disagreement reproduced:" if res else "no disagreement now", res)
    return 1 if res else 0
