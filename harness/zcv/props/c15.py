"""C15 - the result of a load does not depend on how the text is laid out.

Specification: ZLinesFn (strip, comment/blank skipping, lower-casing of types,
names and defined names, empty form) composed with ZLoadFn (key type applied
to every key, value cells independent of arrival order).  For texts of the
family corpus (conforming and damaged, with definitions) the harness applies
1..5 of the listed rewrites at random positions; TLC checks by
self-composition that original and rewritten text have the same outcome
(TwinSameOutcome) and both are executed on the real code.
Texts for the shipped logger and basic-mapping components (whose datatypes are
not part of the loader specification) are handled in direction V: the pair is
recorded with the real outcomes of both loads (fingerprint through factories
and section values) and TLC validates with the grammar of ZLines that the two
texts are layout-equivalent and that the outcomes then agree (MC_C15_V).
"""
import random

from .. import project, refconv, scenario, schemas, textgen
from ..core import MachineryError
from ..textgen import Line
from . import c06, c08

WS = [" ", "\t", "　", " ", " ", "  "]
assert all(w.isspace() for w in WS) and "\u2028".isspace()      # MCExtSpace of MC_ZLoadEnv


def randcase(rng, s):
    return "".join(c.upper() if rng.random() < 0.5 else c.lower() for c in s)


def split_indent(l):
    body = l.lstrip()
    return l[:len(l) - len(body)], body.rstrip()


def container_type_at(lines, i):
    """Type name of the section that line i really sits in ('' = top level), read off the text itself:
    generated lines remember the container they were made for, but damaged texts move lines around."""
    stack = []
    for l in lines[:i]:
        s = str(l).strip()
        k = c06.kind(s)
        if k == "open":
            stack.append(s[1:].rstrip(">").split()[0].lower() if s[1:].rstrip(">").split() else "")
        elif k == "close" and stack:
            stack.pop()
    return stack[-1] if stack else ""


def real_container(rec, lines, i):
    t = container_type_at(lines, i)
    if t == "":
        return rec["top"]
    return rec["types"].get(t)


def rewrite(rng, rec, lines):
    """Apply one random rewrite; returns (new lines, name) or None."""
    lines = list(lines)
    if not lines:
        return [Line(rng.choice(["", "# c"]), role="blank", cont="")], "insert-blank"
    kind = rng.choice(["indent", "trail", "blank", "case-type", "case-name", "case-key", "case-def", "empty-form", "reorder"])
    i = rng.randrange(len(lines))
    l = lines[i]
    role = l.info["role"]
    ind, body = split_indent(str(l))
    if kind == "indent":
        lines[i] = Line("".join(rng.choice(WS) for _ in range(rng.randint(0, 3))) + body, **l.info)
    elif kind == "trail":
        lines[i] = Line(ind + body + rng.choice(WS) + rng.choice(["", "\t"]), **l.info)
    elif kind == "blank":
        lines.insert(i, Line(rng.choice(["", "   ", "# comment", "\t#x <a>", "#%define a b"]), role="blank", cont=l.info["cont"]))
    elif kind == "case-type":
        if role not in ("open", "close", "empty"):
            return None
        t = l.info["type"]
        if role == "close":
            lines[i] = Line(ind + "</" + randcase(rng, t) + rng.choice(["", " "]) + ">", **l.info)
        else:
            rest = body[1 + len(t):]
            lines[i] = Line(ind + "<" + randcase(rng, body[1:1 + len(t)]) + rest, **l.info)
    elif kind == "case-name":
        if role not in ("open", "empty") or not l.info.get("name"):
            return None
        nm = l.info["name"]
        k = body.rfind(nm) if nm in body else body.lower().rfind(nm.lower())
        if k < 0:
            return None
        lines[i] = Line(ind + body[:k] + randcase(rng, body[k:k + len(nm)]) + body[k + len(nm):], **l.info)
    elif kind == "case-key":
        if role != "key" or l.info.get("child") is None:
            return None
        T = real_container(rec, lines, i)
        if T is None or T.get("abstract") or T["keytype"] not in ("basic-key", "ipaddr-or-hostname"):
            return None
        parts = body.split(None, 1)
        lines[i] = Line(ind + randcase(rng, parts[0]) + (" " + parts[1] if len(parts) > 1 else ""), **l.info)
    elif kind == "case-def":
        if role == "define":
            parts = body.split(None, 2)
            lines[i] = Line(ind + parts[0] + " " + randcase(rng, parts[1]) + (" " + parts[2] if len(parts) > 2 else ""), **l.info)
        elif role == "key" and "$" in body:
            k = body.index("$")
            lines[i] = Line(ind + body[:k + 1] + randcase(rng, body[k + 1:]), **l.info)
        else:
            return None
    elif kind == "empty-form":
        if role == "empty":
            op = Line(ind + body[:-2].rstrip() + (" >" if body[:-2].rstrip().endswith("/") else ">"), **dict(l.info, role="open"))
            cl = Line(ind + "</" + l.info["type"] + ">", **dict(l.info, role="close"))
            lines[i:i + 1] = [op, cl]
        elif role == "open" and i + 1 < len(lines) and lines[i + 1].info["role"] == "close":
            lines[i:i + 2] = [Line(ind + body[:-1] + rng.choice(["/>", " />"]), **dict(l.info, role="empty"))]
        else:
            return None
    elif kind == "reorder":
        # swap a key line with the next item of the same container (another key of a different
        # normalised key, or a whole section block); definitions and uses stay where they are
        if role != "key" or "$" in body or i + 1 >= len(lines):
            return None
        T = real_container(rec, lines, i)
        if T is None or T.get("abstract"):
            return None
        n = lines[i + 1]
        if n.info["role"] == "key" and n.info["cont"] == l.info["cont"] and "$" not in n:
            try:
                k1 = refconv.keyconv(T["keytype"], body.split()[0])
                k2 = refconv.keyconv(T["keytype"], n.strip().split()[0])
            except KeyError:            # a key type without a reference normalisation: leave the order alone
                return None
            if k1 is None or k2 is None or k1 == k2:
                return None
            if l.info.get("child") is not n.info.get("child") or True:
                lines[i], lines[i + 1] = n, l
        elif n.info["role"] in ("open", "empty") and n.info["cont"] == l.info["cont"]:
            j = i + 1 if n.info["role"] == "empty" else c08.block_end(lines, i + 1)
            if j is None:
                return None
            block = lines[i + 1:j + 1]
            lines[i:j + 1] = block + [l]
        else:
            return None
    return lines, kind


def with_defines(rng, lines):
    lines = list(lines)
    idx = [i for i, l in enumerate(lines) if l.info["role"] == "key" and (str(l).strip().endswith(" v1") or str(l).strip().endswith(" V2"))]
    if not idx:
        return lines
    i = rng.choice(idx)
    name = rng.choice(["d1", "Dx"])
    ind, body = split_indent(str(lines[i]))
    ref = "$" + name if rng.random() < 0.5 else "${" + name + "}"     # both spellings of a reference
    lines[i] = Line(ind + body.rsplit(" ", 1)[0] + " " + ref, **lines[i].info)
    pos = rng.randint(0, i)
    lines.insert(pos, Line("%define " + name + " v1", role="define", cont=c08.container_at(lines, pos)))
    if rng.random() < 0.4:
        # a second definition of the name: the same value (allowed) or another one (refused) - in either letter case
        p2 = rng.randint(pos + 1, len(lines))
        lines.insert(p2, Line("%define " + name + " " + rng.choice(["v1", "v9"]), role="define",
                              cont=c08.container_at(lines, p2)))
    return lines


def same(a, b):
    return (a["r"] == "err" and b["r"] == "err") or (a["r"] == "ok" and b["r"] == "ok" and a["tree"] == b["tree"])


def compare(ws, sch, rec, item, emit):
    sc = scenario._CTX["sc"]
    got, _ = scenario.run_real(ws, sch, rec, item)
    want = emit["o"]
    why = None
    if got["r"] == "err" and got["kind"].startswith("internal:"):
        why = "internal-error"
    elif got["r"] != want["r"]:
        why = "accept/reject"
    elif got["r"] == "ok" and project.canon_section(want["tree"]) != got["tree"]:
        why = "value-tree"
    if why is None and item["twin"] is not None:
        got2, _ = scenario.run_real(ws, sch, rec, sc.items[item["twin"]])
        if not same(got, got2):
            why = "layout-changes-outcome"
    if why is None:
        return None
    return {"clause": why, "observed": got, "rewrites": item["meta"].get("rewrites"),
            "class": {"clause": why}}


# -- texts for the shipped components ------------------------------------------------------------
COMPONENT_SCHEMAS = {
    "logger": '''<schema>
  <import package="ZConfig.components.logger"/>
  <section type="eventlog" name="*" attribute="eventlog"/>
  <multisection type="logger" name="*" attribute="loggers"/>
</schema>''',
    "mapping": '''<schema>
  <import package="ZConfig.components.basic" file="mapping.xml"/>
  <sectiontype name="dict" extends="ZConfig.basic.mapping"/>
  <sectiontype name="intkeys" extends="ZConfig.basic.mapping" keytype="integer"/>
  <section name="*" type="dict" attribute="simple_dict"/>
  <multisection name="+" type="dict" attribute="dicts"/>
  <section name="*" type="intkeys" attribute="int_dict"/>
</schema>''',
}
_CS = {}


def component_schema(which):
    import io
    import ZConfig
    from . import c11
    if which not in _CS:
        sch = ZConfig.loadSchemaFile(io.StringIO(COMPONENT_SCHEMAS[which]))
        _CS[which] = (sch, c11.rec_of(project.digest_schema(sch)))
    return _CS[which]


def L(text, role, cont, **kw):
    return Line(text, role=role, cont=cont, **kw)


def component_text(rng, which):
    """A text for the component schema as Lines (role / cont / type / name as textgen produces them)."""
    out = []
    if which == "logger":
        def handler(cont, ind):
            h = [L(ind + "<logfile>", "open", cont, type="logfile", name=None)]
            keys = [("path", rng.choice(["STDOUT", "STDERR"])), ("level", rng.choice(["info", "WARN", "12", "debug"])),
                    ("format", rng.choice(["%(message)s", "%(levelname)s %(name)s %(message)s", "%(asctime)s x"])),
                    ("dateformat", "%H:%M"), ("style", rng.choice(["classic", "Classic"]))]
            rng.shuffle(keys)
            for k, v in keys[:rng.randint(1, 5)]:
                h.append(L(ind + "  %s %s" % (k, v), "key", "logfile", child=k))
            if not any(str(x).strip().startswith("path") for x in h):
                h.append(L(ind + "  path STDOUT", "key", "logfile", child="path"))
            h.append(L(ind + "</logfile>", "close", cont, type="logfile"))
            return h
        if rng.random() < 0.6:
            out.append(L("<eventlog>", "open", "", type="eventlog", name=None))
            if rng.random() < 0.7:
                out.append(L("  level %s" % rng.choice(["info", "ERROR", "5"]), "key", "eventlog", child="level"))
            for _ in range(rng.randint(0, 2)):
                out += handler("eventlog", "  ")
            out.append(L("</eventlog>", "close", "", type="eventlog"))
        for i in range(rng.randint(0, 2)):
            nm = rng.choice(["", "", "n%d" % i])
            out.append(L("<logger%s>" % ((" " + nm) if nm else ""), "open", "", type="logger", name=nm or None))
            keys = [("name", rng.choice(["zcv.x", "zcv.y.z"])), ("level", rng.choice(["all", "Trace", "50"])),
                    ("propagate", rng.choice(["yes", "No", "true"]))]
            rng.shuffle(keys)
            for k, v in keys[:rng.randint(0, 3)]:
                out.append(L("  %s %s" % (k, v), "key", "logger", child=k))
            for _ in range(rng.randint(0, 2)):
                out += handler("logger", "  ")
            out.append(L("</logger>", "close", "", type="logger"))
    else:
        def body(cont, ind, ints):
            ks = []
            for _ in range(rng.randint(0, 4)):
                k = str(rng.randint(1, 9)) if ints else rng.choice(["alpha", "Beta", "g-1", "d.e"])
                ks.append(L(ind + "%s %s" % (k, rng.choice(["v1", "two words", "", "7"])), "key", cont, child="+"))
            return ks
        if rng.random() < 0.7:
            out.append(L("<dict>", "open", "", type="dict", name=None))
            out += body("dict", "  ", False)
            out.append(L("</dict>", "close", "", type="dict"))
        for i in range(rng.randint(0, 2)):
            out.append(L("<dict d%d>" % i, "open", "", type="dict", name="d%d" % i))
            out += body("dict", "  ", False)
            out.append(L("</dict>", "close", "", type="dict"))
        if rng.random() < 0.5:
            out.append(L("<intkeys>", "open", "", type="intkeys", name=None))
            out += body("intkeys", "  ", True)
            out.append(L("</intkeys>", "close", "", type="intkeys"))
    return out


def fingerprint(obj, depth=0):
    """What a component configuration amounts to, through factories and section values."""
    if depth > 8:
        return "..."
    if hasattr(obj, "getSectionAttributes"):
        return {"type": obj.getSectionType(), "name": obj.getSectionName(),
                "attrs": {a: fingerprint(getattr(obj, a), depth + 1) for a in obj.getSectionAttributes()}}
    if isinstance(obj, (list, tuple)):
        return [fingerprint(x, depth + 1) for x in obj]
    if isinstance(obj, dict):
        return {repr(k): fingerprint(v, depth + 1) for k, v in obj.items()}
    if hasattr(obj, "handler_factories"):            # logger factories
        return {"factory": type(obj).__name__, "name": getattr(obj, "name", None), "level": obj.level,
                "propagate": getattr(obj, "propagate", None),
                "handlers": [fingerprint(h, depth + 1) for h in obj.handler_factories]}
    if hasattr(obj, "section") and hasattr(obj, "create_loghandler"):      # handler factories
        return {"factory": type(obj).__name__, "section": fingerprint(obj.section, depth + 1)}
    return repr(obj)


def component_outcome(which, text):
    import io
    import ZConfig
    sch, _ = component_schema(which)
    try:
        cfg, _ = ZConfig.loadConfigFile(sch, io.StringIO(text))
    except ZConfig.ConfigurationError as e:
        return {"r": "err", "kind": project.exc_outcome(e)["kind"]}
    except Exception as e:
        return {"r": "err", "kind": "other:" + type(e).__name__}
    return {"r": "ok", "fp": fingerprint(cfg)}


def component_part(chk, rng, quick):
    from .. import flow
    from ..chars import enc_chars, ext_tables
    recs = []
    nrw = {}
    for which in ("logger", "mapping"):
        _, rec = component_schema(which)
        for _ in range(600 if quick else 6000):
            lines = component_text(rng, which)
            if rng.random() < 0.25 and lines:
                vocab = [Line(v, role="fault", cont="") for v in ["zz v1", "<nosuch>", "</dict>", "level loud", "<logfile>"]]
                lines = textgen.damage(rng, lines, vocab, 1)
            cur, applied = lines, []
            for _ in range(rng.randint(1, 5)):
                if which == "mapping" and any(l.info.get("cont") == "intkeys" for l in cur):
                    pass
                r = rewrite(rng, rec, cur)
                if r is not None:
                    # a case rewrite of a key is a layout rewrite only under a case-insensitive key type
                    cur, name = r
                    applied.append(name)
                    nrw[name] = nrw.get(name, 0) + 1
            if not applied:
                continue
            t1 = "".join(str(l) + "\n" for l in lines)
            t2 = "".join(str(l) + "\n" for l in cur)
            o1, o2 = component_outcome(which, t1), component_outcome(which, t2)
            same_ = (o1["r"] == "err" and o2["r"] == "err") or (o1["r"] == "ok" and o2["r"] == "ok" and o1["fp"] == o2["fp"])
            recs.append({"orig": [enc_chars(str(l)) for l in lines], "rew": [enc_chars(str(l)) for l in cur],
                         "same": same_, "r1": o1["r"], "r2": o2["r"],
                         "_which": which, "_t1": t1, "_t2": t2, "_o1": o1, "_o2": o2, "_rw": applied})
    chars = set()
    for r in recs:
        chars.update(r["_t1"])
        chars.update(r["_t2"])
    lower, space = ext_tables(chars)
    lower["~u0;"] = "~u0;"
    header = {"lower": lower, "space": sorted(space) + ["~u0;"]}
    cfg = flow.cfg_text(spec="SpecV", constants={"N": "@N@"}, invariants=["Verdict"],
                        overrides={"ExtLower": "VExtLower", "ExtSpace": "VExtSpace"})

    def describe(i, rec, clause, v):
        if clause.startswith("harness:"):
            raise MachineryError("component rewrite is not a layout rewrite (%s): %r -> %r (%s)"
                                 % (clause, rec["_t1"], rec["_t2"], rec["_rw"]))
        return {"clause": clause, "input": {"component": rec["_which"], "original": rec["_t1"], "rewritten": rec["_t2"],
                                            "rewrites": rec["_rw"]},
                "observed": {"original": rec["_o1"], "rewritten": rec["_o2"]}, "class": {"clause": clause}}
    flow.run_v(chk, "MC_C15_V", cfg, recs, describe, header=header, nontrivial=lambda rec, v: True)
    chk.note("component_pairs", len(recs))
    chk.note("component_pairs_accepted", sum(1 for r in recs if r["r1"] == "ok"))
    chk.note("component_rewrites_applied", nrw)
    if recs:
        chk.sample({"component": recs[0]["_which"], "original": recs[0]["_t1"], "rewritten": recs[0]["_t2"]})


def run(chk):
    quick = chk.tier == "quick"
    rng = random.Random(chk.seed * 7919 + 15)
    docs = schemas.interaction_schemas()
    per = 400 if quick else 3000
    chk.rule = ("random texts of the family schemas (half damaged by line faults, a third with a definition and a use) x 3 "
                "rewritten variants, each by 1..5 rewrites from {indentation, trailing white space (blank, tab, U+3000, "
                "U+00A0, U+2003), blank/comment lines, case of section types / names / keys / defined names and references, "
                "<t/> <-> <t></t>, swapping a key line with a neighbouring item}; non-trivial = at least one rewrite applied")
    sc = scenario.Scenarios(docs)
    nrw = {}
    for sid in range(len(docs)):
        rec = sc.recs[sid]
        vocab = [Line(v, role="fault", cont="") for v in schemas.vocabulary(rec, 40)]
        for b in range(per):
            lines = textgen.Gen(rng, rec, slash_names=True).text()
            if rng.random() < 0.35:
                lines = with_defines(rng, lines)
            if rng.random() < 0.5:
                lines = textgen.damage(rng, lines, vocab, rng.choice([1, 2]))
            base = sc.add(sid, {"d/main.conf": lines}, meta={"nontrivial": False})
            for v in range(3):
                cur = lines
                applied = []
                for _ in range(rng.randint(1, 5)):
                    r = rewrite(rng, rec, cur)
                    if r is not None:
                        cur, name = r
                        applied.append(name)
                        nrw[name] = nrw.get(name, 0) + 1
                if applied:
                    sc.add(sid, {"d/main.conf": cur}, twin=base, meta={"rewrites": applied})
    outs = sc.run_spec(chk)
    scenario.replay_all(chk, sc, outs, compare)
    k = next(i for i, it in enumerate(sc.items) if it["twin"] is not None)
    chk.sample({"original": sc.items[sc.items[k]["twin"]]["files"]["d/main.conf"],
                "rewritten": sc.items[k]["files"]["d/main.conf"], "rewrites": sc.items[k]["meta"]["rewrites"]})
    chk.note("scenarios", len(sc.items))
    chk.note("rewrites_applied", nrw)
    chk.note("accepted_by_spec", sum(1 for o in outs if o["o"]["r"] == "ok"))
    component_part(chk, rng, quick)


def replay(path):
    import json
    print(json.dumps(json.load(open(path)), indent=1)[:6000])
    return 0
