"""C15 - the result of a load does not depend on how the text is laid out.

Specification: ZLinesFn (strip, comment/blank skipping, lower-casing of types,
names and defined names, empty form) composed with ZLoadFn (key type applied
to every key, value cells independent of arrival order).  For texts of the
family corpus (conforming and damaged, with definitions) the harness applies
1..5 of the listed rewrites at random positions; TLC checks by
self-composition that original and rewritten text have the same outcome
(TwinSameOutcome) and both are executed on the real code.
"""
import random

from .. import project, refconv, scenario, schemas, textgen
from ..textgen import Line
from . import c06, c08

WS = [" ", "\t", "　", " ", " ", "  "]
assert all(w.isspace() for w in WS)


def randcase(rng, s):
    return "".join(c.upper() if rng.random() < 0.5 else c.lower() for c in s)


def split_indent(l):
    body = l.lstrip()
    return l[:len(l) - len(body)], body.rstrip()


def rewrite(rng, rec, lines):
    """Apply one random rewrite; returns (new lines, name) or None."""
    lines = list(lines)
    if not lines:
        return [Line(rng.choice(["", "# c"]), role="blank", cont="")], "insert-blank"
    kind = rng.choice(["indent", "trail", "blank", "case-type", "case-name", "case-key", "case-def", "empty-form", "reorder"])
    i = rng.randrange(len(lines))
    l = lines[i]
    role = l.info["role"]
    ind, body = split_indent(str(l))
    if kind == "indent":
        lines[i] = Line("".join(rng.choice(WS) for _ in range(rng.randint(0, 3))) + body, **l.info)
    elif kind == "trail":
        lines[i] = Line(ind + body + rng.choice(WS) + rng.choice(["", "\t"]), **l.info)
    elif kind == "blank":
        lines.insert(i, Line(rng.choice(["", "   ", "# comment", "\t#x <a>", "#%define a b"]), role="blank", cont=l.info["cont"]))
    elif kind == "case-type":
        if role not in ("open", "close", "empty"):
            return None
        t = l.info["type"]
        if role == "close":
            lines[i] = Line(ind + "</" + randcase(rng, t) + rng.choice(["", " "]) + ">", **l.info)
        else:
            rest = body[1 + len(t):]
            lines[i] = Line(ind + "<" + randcase(rng, body[1:1 + len(t)]) + rest, **l.info)
    elif kind == "case-name":
        if role not in ("open", "empty") or not l.info.get("name"):
            return None
        nm = l.info["name"]
        k = body.rfind(nm) if nm in body else body.lower().rfind(nm.lower())
        if k < 0:
            return None
        lines[i] = Line(ind + body[:k] + randcase(rng, body[k:k + len(nm)]) + body[k + len(nm):], **l.info)
    elif kind == "case-key":
        if role != "key" or l.info.get("child") is None:
            return None
        T = rec["top"] if l.info["cont"] == "" else rec["types"][l.info["cont"]]
        if T["keytype"] == "identifier":
            return None
        parts = body.split(None, 1)
        lines[i] = Line(ind + randcase(rng, parts[0]) + (" " + parts[1] if len(parts) > 1 else ""), **l.info)
    elif kind == "case-def":
        if role == "define":
            parts = body.split(None, 2)
            lines[i] = Line(ind + parts[0] + " " + randcase(rng, parts[1]) + (" " + parts[2] if len(parts) > 2 else ""), **l.info)
        elif role == "key" and "$" in body:
            k = body.index("$")
            lines[i] = Line(ind + body[:k + 1] + randcase(rng, body[k + 1:]), **l.info)
        else:
            return None
    elif kind == "empty-form":
        if role == "empty":
            op = Line(ind + body[:-2].rstrip() + ">", **dict(l.info, role="open"))
            cl = Line(ind + "</" + l.info["type"] + ">", **dict(l.info, role="close"))
            lines[i:i + 1] = [op, cl]
        elif role == "open" and i + 1 < len(lines) and lines[i + 1].info["role"] == "close":
            lines[i:i + 2] = [Line(ind + body[:-1] + rng.choice(["/>", " />"]), **dict(l.info, role="empty"))]
        else:
            return None
    elif kind == "reorder":
        # swap a key line with the next item of the same container (another key of a different
        # normalised key, or a whole section block); definitions and uses stay where they are
        if role != "key" or "$" in body or i + 1 >= len(lines):
            return None
        T = rec["top"] if l.info["cont"] == "" else rec["types"][l.info["cont"]]
        n = lines[i + 1]
        if n.info["role"] == "key" and n.info["cont"] == l.info["cont"] and "$" not in n:
            k1 = refconv.keyconv(T["keytype"], body.split()[0])
            k2 = refconv.keyconv(T["keytype"], n.strip().split()[0])
            if k1 is None or k2 is None or k1 == k2:
                return None
            if l.info.get("child") is not n.info.get("child") or True:
                lines[i], lines[i + 1] = n, l
        elif n.info["role"] in ("open", "empty") and n.info["cont"] == l.info["cont"]:
            j = i + 1 if n.info["role"] == "empty" else c08.block_end(lines, i + 1)
            if j is None:
                return None
            block = lines[i + 1:j + 1]
            lines[i:j + 1] = block + [l]
        else:
            return None
    return lines, kind


def with_defines(rng, lines):
    lines = list(lines)
    idx = [i for i, l in enumerate(lines) if l.info["role"] == "key" and (str(l).strip().endswith(" v1") or str(l).strip().endswith(" V2"))]
    if not idx:
        return lines
    i = rng.choice(idx)
    name = rng.choice(["d1", "Dx"])
    ind, body = split_indent(str(lines[i]))
    lines[i] = Line(ind + body.rsplit(" ", 1)[0] + " $" + name, **lines[i].info)
    pos = rng.randint(0, i)
    lines.insert(pos, Line("%define " + name + " v1", role="define", cont=c08.container_at(lines, pos)))
    return lines


def same(a, b):
    return (a["r"] == "err" and b["r"] == "err") or (a["r"] == "ok" and b["r"] == "ok" and a["tree"] == b["tree"])


def compare(ws, sch, rec, item, emit):
    sc = scenario._CTX["sc"]
    got, _ = scenario.run_real(ws, sch, rec, item)
    want = emit["o"]
    why = None
    if got["r"] == "err" and got["kind"].startswith("internal:"):
        why = "internal-error"
    elif got["r"] != want["r"]:
        why = "accept/reject"
    elif got["r"] == "ok" and project.canon_section(want["tree"]) != got["tree"]:
        why = "value-tree"
    if why is None and item["twin"] is not None:
        got2, _ = scenario.run_real(ws, sch, rec, sc.items[item["twin"]])
        if not same(got, got2):
            why = "layout-changes-outcome"
    if why is None:
        return None
    return {"clause": why, "observed": got, "rewrites": item["meta"].get("rewrites"),
            "class": {"clause": why}}


def run(chk):
    quick = chk.tier == "quick"
    rng = random.Random(chk.seed * 7919 + 15)
    docs = schemas.interaction_schemas()
    per = 400 if quick else 3000
    chk.rule = ("random texts of the family schemas (half damaged by line faults, a third with a definition and a use) x 3 "
                "rewritten variants, each by 1..5 rewrites from {indentation, trailing white space (blank, tab, U+3000, "
                "U+00A0, U+2003), blank/comment lines, case of section types / names / keys / defined names and references, "
                "<t/> <-> <t></t>, swapping a key line with a neighbouring item}; non-trivial = at least one rewrite applied")
    sc = scenario.Scenarios(docs)
    nrw = {}
    for sid in range(len(docs)):
        rec = sc.recs[sid]
        vocab = [Line(v, role="fault", cont="") for v in schemas.vocabulary(rec, 40)]
        for b in range(per):
            lines = textgen.Gen(rng, rec).text()
            if rng.random() < 0.35:
                lines = with_defines(rng, lines)
            if rng.random() < 0.5:
                lines = textgen.damage(rng, lines, vocab, rng.choice([1, 2]))
            base = sc.add(sid, {"d/main.conf": lines}, meta={"nontrivial": False})
            for v in range(3):
                cur = lines
                applied = []
                for _ in range(rng.randint(1, 5)):
                    r = rewrite(rng, rec, cur)
                    if r is not None:
                        cur, name = r
                        applied.append(name)
                        nrw[name] = nrw.get(name, 0) + 1
                if applied:
                    sc.add(sid, {"d/main.conf": cur}, twin=base, meta={"rewrites": applied})
    outs = sc.run_spec(chk)
    scenario.replay_all(chk, sc, outs, compare)
    k = next(i for i, it in enumerate(sc.items) if it["twin"] is not None)
    chk.sample({"original": sc.items[sc.items[k]["twin"]]["files"]["d/main.conf"],
                "rewritten": sc.items[k]["files"]["d/main.conf"], "rewrites": sc.items[k]["meta"]["rewrites"]})
    chk.note("scenarios", len(sc.items))
    chk.note("rewrites_applied", nrw)
    chk.note("accepted_by_spec", sum(1 for o in outs if o["o"]["r"] == "ok"))


def replay(path):
    import json
    print(json.dumps(json.load(open(path)), indent=1)[:6000])
    return 0
