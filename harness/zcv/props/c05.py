"""C05 - %define names form one case-insensitive, define-before-use,
write-once namespace.

Specification: ZLoadFn (StepDefine / Expand / StepInclude) run by the scenario
machine ZLoadS; TLC checks DefinesWriteOnce (a stored definition never
changes within a load) in every step and emits, per scenario, the outcome and
the final definition table.  Scenarios: every sequence of up to N steps from
{define n v, use n, include f} over 3 names in mixed case, with literal / empty
/ $other / $$other / ${other}x / padded values, illegal names, and includes
nested two levels.  Each scenario is loaded on the real code twice in a row
against the same schema object, and twice with one reused ConfigLoader.
"""
import itertools

from .. import scenario, schemas
from ..schemas import K, MK, MSEC, SCHEMA, TYPE

DOC = SCHEMA(types=[TYPE("s", [MK("k")])], children=[MK("k"), K("j"), MSEC("s", "*", "ss")])

STEPS = [
    "%define a v1", "%define A v1", "%define a v2", "%define a", "%define b $a", "%define B $$a",
    "%define b ${a}x", "%define c p  q", "%define 1a v1", "%define a-b v1", "%define b $c", "%define A \t v1", "%define $b v1", "%define a $a",
    "k $a", "k $B", "k ${c}", "k ${A}", "k $$a", "k $a$b",
    "%include f1.conf", "%include sub/f2.conf",
]
STEPS_SMALL = ["%define a v1", "%define A v2", "%define b $a", "%define B $$a", "%define b ${A}", "k $a", "k ${B}",
               "%include f1.conf", "%include sub/f2.conf", "%define a"]
# the one namespace is shared with resources included from inside an open section, too: what such a fragment
# defines is visible (and write-once) after the section, what the section defined before is visible in it
STEPS_SEC = ["<s>", "</s>", "%include f4.conf", "k $a", "%define a v2", "%define A v1", "k ${a}$b", "%include f5.conf"]
FILES = {
    "d/f4.conf": ["%define a v1", "k in4"],
    "d/f5.conf": ["k $a", "%define b w"],
    "d/f1.conf": ["%define a v1", "k $b"],
    "d/sub/f2.conf": ["%define b $a", "%include ../f3.conf", "k ${c}"],
    "d/f3.conf": ["k $a${B}", "%define C $b"],
}


PROBES = [["k $a$b$c"], ["%define a zz", "%define B yy", "%define c xx", "k $a$b$c"]]


def _same(want, got):
    from .. import project
    if got["r"] != want["r"]:
        return "accept/reject"
    if want["r"] == "err":
        if got["kind"].startswith("internal:"):
            return "internal-error"
        if want["kind"] == "syntax" and got["kind"] != "syntax":
            return "error-kind"
        return None
    if project.canon_section(want["tree"]) != got["tree"]:
        return "expanded-values"
    return None


def compare(ws, sch, rec, item, emit):
    import os
    import ZConfig
    # environment variables spelled like the names the texts refer to: '$name' is never looked up there
    for n in ("a", "A", "b", "B", "c", "C"):
        os.environ.setdefault(n, "from-the-environment")
    want = emit["o"]
    runs = []
    got1, _ = scenario.run_real(ws, sch, rec, item)
    got2, _ = scenario.run_real(ws, sch, rec, item)
    runs += [("first load", got1), ("second load, same schema object", got2)]
    holder = {}

    def factory(schema, ovs):
        if "l" not in holder:
            holder["l"] = ZConfig.loader.ConfigLoader(schema)
        return holder["l"]
    got3, _ = scenario.run_real(ws, sch, rec, item, loader_factory=factory)
    got4, _ = scenario.run_real(ws, sch, rec, item, loader_factory=factory)
    runs += [("reused ConfigLoader, first", got3), ("reused ConfigLoader, second", got4)]
    # a different text through the same loader / schema: nothing of the previous load may be visible
    outs = scenario._CTX["outs"]
    for pi in (0, 1):
        probe = scenario._CTX["sc"].items[pi]
        gp, _ = scenario.run_real(ws, sch, rec, probe, loader_factory=factory)
        runs.append(("reused ConfigLoader, then probe %d" % pi, gp, outs[pi]["o"]))
        gq, _ = scenario.run_real(ws, sch, rec, probe)
        runs.append(("same schema object, then probe %d" % pi, gq, outs[pi]["o"]))
    for r in runs:
        what, got = r[0], r[1]
        w = r[2] if len(r) > 2 else want
        why = _same(w, got)
        if why:
            cls = {"clause": why, "run": what.split(",")[0]}
            return {"clause": why + " (" + what + ")", "observed": got, "expected_for_that_load": w, "class": cls}
    return None


def build(maxlen, steps, docs):
    sc = scenario.Scenarios(docs)
    for p in PROBES:
        files = dict(FILES)
        files["d/main.conf"] = list(p)
        sc.add(0, files, meta={"nontrivial": True})
    for n in range(0, maxlen + 1):
        for combo in itertools.product(steps, repeat=n):
            files = dict(FILES)
            files["d/main.conf"] = list(combo)
            sc.add(0, files, meta={"nontrivial": any(s.startswith("%") for s in combo)})
    return sc


def run(chk):
    quick = chk.tier == "quick"
    chk.rule = ("every sequence of <= N steps over the step vocabulary (defines of 3 names in mixed case with literal, "
                "empty, $other, $$other, ${other}x and padded values, illegal names, uses, includes nested two levels; a third "
                "vocabulary with a section so that fragments are included from inside an open section); "
                "all distinct; non-trivial = contains a directive. Each is executed four times on the real code (twice "
                "against one schema object, twice through one reused ConfigLoader).")
    docs = [DOC]
    # (thorough: four steps over the vocabulary as it was before the three latest steps joined it - 22^4 histories
    # times eight executions each would not fit the budget - and three steps over the whole of it)
    older = [x for x in STEPS if x not in ("%define A \t v1", "%define $b v1", "%define a $a")]
    plans = ([(3, STEPS), (4, STEPS_SMALL), (4, STEPS_SEC)] if quick
             else [(3, STEPS), (4, older), (6, STEPS_SMALL[:7]), (5, STEPS_SEC)])
    for maxlen, steps in plans:
        sc = build(maxlen, steps, docs)
        outs = sc.run_spec(chk)
        scenario.replay_all(chk, sc, outs, compare)
        chk.sample({"main": sc.items[len(sc.items) // 2]["files"]["d/main.conf"], "spec": outs[len(outs) // 2]["o"]})
    chk.exhaustive = True
    chk.assumptions += ["%include targets are resolved by the harness' own path arithmetic (URL joining is C18)"]


def replay(path):
    import json
    print(json.dumps(json.load(open(path)), indent=1)[:4000])
    return 0
