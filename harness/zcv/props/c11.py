"""C11 - schema composition features mean the same as their written-out
expansion.

Specification: spec/ZSchemaExpand.tla defines the expansion of a schema
document (ExpandDoc: extends of section types written out with explicit key
type / datatype and the base's items first, '+' defaults kept in their
spelling, relative names resolved against the nearest prefix, base schemas
merged, components inlined once); spec/ZSchemaLang.tla builds both documents.
TLC checks for every composed document (the composed worlds below and every
accepted single edit of them) that the expansion is accepted and builds the
same schema (ExpansionSameSchema) and emits schema + expansion; the harness
loads the composed document (real files, real packages) and the expansion
(rendered from the tree TLC computed) with the real parser: both schema
objects must equal the specification's, and every text of the schema's
vocabulary (all single lines, random texts up to 7 lines) must give the same
outcome - value tree or rejection - against both.
Finally the nine composed worlds themselves are given to the loader
specification (ZLoad, as in C01/C02): TLC feeds every text over each world's
vocabulary up to the line bound and every behaviour is replayed on the
composed schema (accept / reject and value tree) - the schema-language and the
loader specification are thereby checked against the same real objects.
"""
import copy
import io
import json
import random

from .. import loadgen, project, schemas
from .. import schemadoc as sd
from ..schemadoc import N
from . import c10


def D(key, text):
    return N("default", {"key": key} if key is not None else {}, text=text)


def worlds():
    out = []
    # 1 extends chain of length 3, key type overridden twice, '+' key and '+' multikey defaults re-keyed,
    #   datatype inherited / overridden, implements not inherited
    main = N("schema", {}, [
        N("abstracttype", {"name": "abs1"}),
        N("sectiontype", {"name": "b0", "implements": "abs1"}, [
            N("key", {"name": "k0"}),
            N("key", {"name": "+", "attribute": "w"}, [D("Path", "p"), D("d1", "dv")]),
            N("multikey", {"name": "m0", "datatype": "integer"}, [D(None, "1"), D(None, "2")])]),
        N("sectiontype", {"name": "b1", "extends": "b0", "keytype": "identifier", "datatype": "zcv.dts.wrap"}, [
            N("key", {"name": "k1", "datatype": "integer", "default": "1"})]),
        N("sectiontype", {"name": "b2", "extends": "b1"}, [
            N("multikey", {"name": "m2", "datatype": "boolean"}),
            N("section", {"type": "b0", "name": "inner"})]),
        N("sectiontype", {"name": "c0"}, [
            N("multikey", {"name": "+", "attribute": "wm2", "datatype": "integer"},
              [D("Alpha", "1"), D("beta", "2"), D("Alpha", "3"), D("ALPHA", "4")])]),
        N("sectiontype", {"name": "c1", "extends": "c0", "keytype": "identifier", "implements": "abs1"}, [
            N("key", {"name": "Own"})]),
        N("sectiontype", {"name": "c2", "extends": "c1", "keytype": "basic-key"}, []),
        N("sectiontype", {"name": "b3", "extends": "b2", "keytype": "basic-key", "implements": "abs1"}, [
            N("key", {"name": "k3", "handler": "h3"})]),
        N("multisection", {"type": "abs1", "name": "*", "attribute": "impls"}),
        N("multisection", {"type": "b2", "name": "+", "attribute": "twos"}),
        N("multisection", {"type": "c2", "name": "+", "attribute": "cs"}),
        N("section", {"type": "b1", "name": "one"})])
    out.append(("main.xml", {"main.xml": main}, {}))
    # 2 prefixes: absolute at the schema, relative and absolute at section types, inherited datatypes resolved
    #   where they were written
    main = N("schema", {"prefix": "zcv", "datatype": ".dts.wrap"}, [
        N("sectiontype", {"name": "p1", "prefix": ".dts", "datatype": ".wrap"}, [
            N("key", {"name": "k1", "datatype": ".boomkey"})]),
        N("sectiontype", {"name": "p2", "extends": "p1"}, [
            N("key", {"name": "k2", "datatype": ".dts.boomkey"})]),
        N("sectiontype", {"name": "p3", "extends": "p2", "prefix": "zcv.dts", "datatype": "null"}, [
            N("key", {"name": "k3", "datatype": ".boomkey"}), N("key", {"name": "k4", "datatype": "zcv.dts.boomkey"})]),
        N("key", {"name": "top", "datatype": ".dts.boomkey"}),
        N("multisection", {"type": "p1", "name": "*", "attribute": "ones"}),
        N("multisection", {"type": "p2", "name": "+", "attribute": "twos"}),
        N("section", {"type": "p3", "name": "three"})])
    out.append(("main.xml", {"main.xml": main}, {}))
    # 3 base schemas: three bases, one of them with a base of its own; key type / datatype from the bases
    b0 = N("schema", {"keytype": "identifier"}, [
        N("sectiontype", {"name": "deep"}, [N("key", {"name": "dk"})]),
        N("key", {"name": "Deep1", "default": "d"})])
    b1 = N("schema", {"extends": "b0.xml"}, [
        N("sectiontype", {"name": "bt1", "extends": "deep"}, [N("key", {"name": "k1"})]),
        N("key", {"name": "Base1", "default": "b1"})])
    b2 = N("schema", {"keytype": "identifier", "datatype": "zcv.dts.wrap"}, [
        N("abstracttype", {"name": "babs"}),
        N("multikey", {"name": "base2", "datatype": "integer"}, [D(None, "5")])])
    b3 = N("schema", {"keytype": "identifier", "handler": "ignored"}, [
        N("sectiontype", {"name": "bt3", "implements": "babs"}, [])])
    main = N("schema", {"extends": "b3.xml b2.xml b1.xml", "datatype": "null", "handler": "toph"}, [
        N("sectiontype", {"name": "own", "extends": "bt1", "implements": "babs"}, [N("key", {"name": "k2"})]),
        N("multisection", {"type": "babs", "name": "*", "attribute": "impl"}),
        N("section", {"type": "deep", "name": "*", "attribute": "deep"}),
        N("key", {"name": "Own1", "handler": "hown"})])
    out.append(("main.xml", {"main.xml": main, "b0.xml": b0, "b1.xml": b1, "b2.xml": b2, "b3.xml": b3}, {}))
    # 4 diamond: main imports A and B, both import C; C and A imported again; B derives under another key type
    main = N("schema", {}, [
        N("abstracttype", {"name": "abs1"}),
        N("import", {"package": "zcvsd_a"}),
        N("import", {"package": "zcvsd_b"}),
        N("import", {"package": "zcvsd_c"}),
        N("import", {"package": "zcvsd_a", "file": "component.xml"}),
        N("sectiontype", {"name": "mine", "extends": "pb1"}, [N("key", {"name": "mk"})]),
        N("multisection", {"type": "abs1", "name": "*", "attribute": "impls"}),
        N("section", {"type": "mine", "name": "+", "attribute": "mine"})])
    ca = N("component", {}, [
        N("import", {"package": "zcvsd_c"}),
        N("sectiontype", {"name": "pa1", "extends": "pc1", "implements": "abs1"}, [N("key", {"name": "ka"})])])
    cb = N("component", {"prefix": "zcv.dts"}, [
        N("import", {"package": "zcvsd_c"}),
        N("sectiontype", {"name": "pb1", "extends": "pc1", "keytype": "identifier", "datatype": ".wrap"}, [
            N("key", {"name": "kb", "datatype": "integer"})])])
    cc = N("component", {}, [
        N("sectiontype", {"name": "pc1", "implements": "abs1"}, [
            N("key", {"name": "kc"}),
            N("key", {"name": "+", "attribute": "rest"}, [D("Gamma", "g"), D("delta", "d")])])])
    out.append(("main.xml", {"main.xml": main},
                {("zcvsd_a", "component.xml"): ca, ("zcvsd_b", "component.xml"): cb,
                 ("zcvsd_c", "component.xml"): cc}))
    # 5 import/@src (types only, the other schema's items are not merged) + a relative package name
    other = N("schema", {"keytype": "identifier"}, [
        N("sectiontype", {"name": "ot1", "keytype": "identifier"}, [N("key", {"name": "Ok1"})]),
        N("key", {"name": "ignored"})])
    main = N("schema", {"prefix": "zcvsd_a"}, [
        N("import", {"src": "other.xml"}),
        N("import", {"package": ".sub"}),
        N("sectiontype", {"name": "p2", "extends": "ot1"}, [N("key", {"name": "own"})]),
        N("multisection", {"type": "p2", "name": "*", "attribute": "twos"}),
        N("section", {"type": "subt", "name": "*", "attribute": "sub"})])
    sub = N("component", {}, [N("sectiontype", {"name": "subt"}, [N("key", {"name": "sk", "datatype": "boolean"})])])
    out.append(("main.xml", {"main.xml": main, "other.xml": other}, {("zcvsd_a.sub", "component.xml"): sub}))
    # 6 bases that import the same component along two paths; extender derives from a component type
    b1 = N("schema", {}, [
        N("abstracttype", {"name": "abs1"}),
        N("import", {"package": "zcvsd_c"}),
        N("key", {"name": "from-b1"})])
    b2 = N("schema", {}, [
        N("import", {"package": "zcvsd_c"}),
        N("sectiontype", {"name": "t2", "extends": "pc1"}, [N("multikey", {"name": "m2"})])])
    cc2 = N("component", {}, [
        N("sectiontype", {"name": "pc1", "implements": "abs1"}, [N("key", {"name": "kc", "default": "c"})])])
    main = N("schema", {"extends": "b2.xml b1.xml"}, [
        N("import", {"package": "zcvsd_c"}),
        N("sectiontype", {"name": "t3", "extends": "t2", "implements": "abs1"}, []),
        N("multisection", {"type": "abs1", "name": "+", "attribute": "impls"})])
    out.append(("main.xml", {"main.xml": main, "b1.xml": b1, "b2.xml": b2}, {("zcvsd_c", "component.xml"): cc2}))
    # 7 components that import each other: A declares the abstract type, imports B and goes on; B imports A
    #   (already being read: nothing happens) and implements A's abstract type; the schema names both, B first
    ca3 = N("component", {}, [
        N("abstracttype", {"name": "cabs"}),
        N("import", {"package": "zcvsd_b"}),
        N("sectiontype", {"name": "ca1", "implements": "cabs"}, [N("key", {"name": "ka", "default": "a"})])])
    cb3 = N("component", {}, [
        N("import", {"package": "zcvsd_a"}),
        N("sectiontype", {"name": "cb1", "implements": "cabs"}, [N("key", {"name": "kb", "datatype": "integer"})]),
        N("import", {"package": "zcvsd_a", "file": "component.xml"})])
    main = N("schema", {}, [
        N("import", {"package": "zcvsd_a"}),
        N("import", {"package": "zcvsd_b"}),
        N("sectiontype", {"name": "mine", "extends": "cb1", "implements": "cabs"}, [N("key", {"name": "mk"})]),
        N("multisection", {"type": "cabs", "name": "*", "attribute": "impls"})])
    out.append(("main.xml", {"main.xml": main},
                {("zcvsd_a", "component.xml"): ca3, ("zcvsd_b", "component.xml"): cb3}))
    # 8 what a derived type inherits besides keys: wildcard-named sections (no key of their own, only an attribute),
    #   down a chain of two; the written-out type must carry them first and reserve their attributes all the same
    main = N("schema", {}, [
        N("sectiontype", {"name": "leaf"}, [N("key", {"name": "v"})]),
        N("sectiontype", {"name": "base"}, [
            N("multisection", {"type": "leaf", "name": "*", "attribute": "items"}),
            N("section", {"type": "leaf", "name": "+", "attribute": "named"}),
            N("key", {"name": "k-one", "attribute": "first"})]),
        N("sectiontype", {"name": "mid", "extends": "base"}, [N("key", {"name": "k2"})]),
        N("sectiontype", {"name": "top", "extends": "mid", "keytype": "identifier"}, [
            N("multikey", {"name": "m3"}), N("section", {"type": "leaf", "name": "*", "attribute": "more"})]),
        N("multisection", {"type": "top", "name": "*", "attribute": "tops"}),
        N("section", {"type": "mid", "name": "*", "attribute": "amid"})])
    out.append(("main.xml", {"main.xml": main}, {}))
    # 9 one component reached with and without its file name spelled out (component.xml is what an import without
    #   a file attribute means), from the schema and from another component
    main = N("schema", {}, [
        N("import", {"package": "zcvsd_e"}),
        N("import", {"package": "zcvsd_e", "file": "component.xml"}),
        N("import", {"package": "zcvsd_a"}),
        N("import", {"package": "zcvsd_e"}),
        N("sectiontype", {"name": "own", "extends": "pe1"}, [N("key", {"name": "ko"})]),
        N("multisection", {"type": "own", "name": "*", "attribute": "owns"}),
        N("section", {"type": "pa9", "name": "*", "attribute": "nine"})])
    ca9 = N("component", {}, [
        N("import", {"package": "zcvsd_e", "file": "component.xml"}),
        N("import", {"package": "zcvsd_e"}),
        N("sectiontype", {"name": "pa9", "extends": "pe1"}, [N("key", {"name": "ka"})])])
    out.append(("main.xml", {"main.xml": main}, {("zcvsd_a", "component.xml"): ca9}))
    return out


def quick_cap(cap_f):
    return cap_f < 1000


def scenarios(seed, quick):
    """The worlds, every (sampled) single edit of each of their documents from the benign pool (values that are
    likely to keep the document rule-abiding: the specification decides) and from the full pool, and pairs."""
    rng = random.Random(seed * 1013 + 11)
    out = []
    cap_b, cap_f, pairs = (70, 25, 25) if quick else (100000, 100000, 400)
    for wi, w in enumerate(worlds()):
        main, files, comps = w
        out.append(("world %d" % wi, "W", w, None))
        for name in list(files) + list(comps):
            base = files[name] if name in files else comps[name]

            def put(lab, t):
                w2 = (main, dict(files), dict(comps))
                if name in files:
                    w2[1][name] = t
                else:
                    w2[2][name] = t
                out.append(("world %d %s: %s" % (wi, name, lab), "W", w2, None))
            eb = list(sd.edits(base, pool=sd.BENIGN))
            ef = list(sd.edits(base))
            for lab, t in (rng.sample(eb, cap_b) if len(eb) > cap_b else eb):
                put(lab, t)
            # edits whose value comes from the document itself (a sibling's or an inherited item's name or
            # attribute) are the ones that probe what a composition feature hands down: all of them, always
            derived = [(lab, t) for lab, t in ef if lab.startswith("set! ") and ("@attribute=" in lab or "@name=" in lab)]
            rest = [(lab, t) for lab, t in ef if (lab, t) not in derived] if len(ef) < 4000 else ef
            derived.sort(key=lambda e: "@attribute=" not in e[0])     # attributes first (stable)
            for lab, t in derived[:90] if quick_cap(cap_f) else derived:
                put(lab, t)
            for lab, t in (rng.sample(rest, cap_f) if len(rest) > cap_f else rest):
                put(lab, t)
            for _ in range(pairs):
                l1, t1 = rng.choice(eb)
                l2, t2 = rng.choice(list(sd.edits(t1, pool=sd.BENIGN)))
                put(l1 + " ; " + l2, t2)
    return out


# -- texts ---------------------------------------------------------------------------------------
_SHORT = {"zcv.dts.boomkey": "boomkey", "zcv.dts.wrap": "wrap", "zcv.dts.reject": "reject", "zcv.dts.boom": "boom"}


def rec_of(dig):
    """Digest -> the record form schemas.vocabulary / project.proj_section work on."""
    def typ(t):
        if t["abstract"]:
            return {"abstract": True, "impl": set(t["impl"])}
        ch = []
        for c in t["children"]:
            c = dict(c)
            c["dt"] = _SHORT.get(c["dt"], c["dt"])
            ch.append(c)
        return {"abstract": False, "keytype": t["keytype"], "datatype": _SHORT.get(t["datatype"], t["datatype"]),
                "children": ch, "handler": t.get("handler", "")}
    return {"top": typ(dig["top"]), "types": {n: typ(t) for n, t in dig["types"].items()}, "comps": set()}


def texts_for(rec, rng, n_random):
    try:
        vocab = schemas.vocabulary(rec, 40)
    except KeyError:
        vocab = []
    out = [l + "\n" for l in vocab]
    for _ in range(n_random):
        k = rng.randint(2, 7)
        out.append("".join(rng.choice(vocab) + "\n" for _ in range(k)) if vocab else "")
    return out


def outcome(sch, text, rec):
    got, _ = loadgen.load_text(sch, text, rec=rec)
    if got["r"] == "err":
        # a conversion error of a schema default carries the default's position in the schema document,
        # which the expansion is free to change: the line is compared for the other kinds only
        return {"r": "err", "kind": got["kind"], "line": None if got["kind"] == "conv" else got["line"]}
    return got


N_RANDOM = {"n": 60}


def replay_g(v):
    world, root = c10._W["world"], c10._W["root"]
    i = v["d"] - 1
    rid = c10._W["mains"][i]["rid"]
    label = c10._W["labels"][i]
    sch, got = sd.load_real(world, root, rid)
    why = None
    det = {"input": {"label": label, "main": rid}, "spec": {"ok": v["ok"], "why": v["why"]}, "observed": dict(got)}

    def done(why, **extra):
        det["clause"] = why
        det["class"] = {"clause": why}
        det["input"]["xml"] = {r: sd.to_xml(t) for r, t in world.docs.items()
                               if r == rid or r.split(":")[-1].split("_")[0] == rid.split("_")[0]}
        det.update(extra)
        return det

    if got["ok"] != v["ok"]:
        return done("composed: accept/reject")
    if not got["ok"]:
        if got["cls"] != "SchemaError" and not v["any"]:
            return done("composed: error-class")
        return None
    want = sd.canon_digest(v["dig"])
    try:
        real = project.digest_schema(sch)
    except Exception as e:
        return done("digest-unreadable", why=repr(e))
    if real != want:
        return done("composed: schema-object", spec_digest=want, real_digest=real)
    if not v["exp"]:
        return None          # expansion not defined (a name that is no fixed point of the deriving key type)
    tree = v["exp"][0]
    tree = fix_tree(tree)
    esch, egot = sd.load_tree(tree)
    det["input"]["expansion_xml"] = sd.to_xml(tree)
    if not egot["ok"]:
        return done("expansion: refused", expansion=egot)
    try:
        ereal = project.digest_schema(esch)
    except Exception as e:
        return done("digest-unreadable", why=repr(e))
    if ereal != want:
        return done("expansion: schema-object", spec_digest=want, real_digest=ereal)
    rec = rec_of(want)
    rng = random.Random(i * 7919 + 3)
    for text in texts_for(rec, rng, N_RANDOM["n"]):
        a = outcome(sch, text, rec)
        b = outcome(esch, text, rec)
        if a != b:
            return done("text: composed and expansion disagree", text=text, composed=a, expansion=b)
    return None


def fix_tree(t):
    """JSON from TLC -> node dicts (empty functions arrive as empty lists)."""
    return {"tag": t["tag"], "a": dict(t["a"]) if isinstance(t["a"], dict) else {},
            "kids": [fix_tree(k) for k in t["kids"]], "text": t["text"]}


def tally_g(v):
    if not v["ok"]:
        return "composed refused"
    return "expansion compared" if v["exp"] else "accepted, expansion not defined (name not a fixed point)"


def loader_pass(chk, quick):
    """The composed worlds as schemas of the loader specification: the record read off the real composed schema
    (which the pass above has just compared with the schema-language specification's) is handed to ZLoad, TLC
    feeds every text over its vocabulary and every behaviour is replayed on the composed schema."""
    import os
    import shutil
    import ZConfig
    from .. import tlc
    from . import c01
    root = tlc.mkscratch("zcv-c11w-")
    try:
        world = sd.World()
        c10.static_components(world)
        docs = []
        for wi, w in enumerate(worlds()):
            main, files, comps = c10.rename_world(w, 9000 + wi)
            for name, t in files.items():
                world.add_file(name, t)
            for (pkg, f), t in comps.items():
                world.add_component(pkg, f, t)
            docs.append((wi, main))
        sd.materialise(world, root)
        ext = []
        for wi, main in docs:
            path = os.path.join(root, main)
            try:
                sch = ZConfig.loadSchema(path)
            except Exception as e:
                # the first pass has already compared this world with the specification (and reported the
                # disagreement if the specification accepts it): nothing to feed the loader specification with
                chk.extra.setdefault("worlds_refused_by_the_code", []).append("%d: %s" % (wi, str(e)[:120]))
                continue
            ext.append({"external": True, "path": path, "rec": rec_of(project.digest_schema(sch)),
                        "xml": "<!-- composed world %d of C11: %s -->" % (wi, main)})
        if ext:
            c01.explore(chk, ext, cap=(18 if quick else 26), maxlines=(3 if quick else 4), tree=True)
    finally:
        shutil.rmtree(root, ignore_errors=True)


def run(chk):
    quick = chk.tier == "quick"
    items = scenarios(chk.seed, quick)
    N_RANDOM["n"] = 40 if quick else 200
    chk.rule = ("nine composed worlds (extends chain of 3 with two key-type overrides and '+' defaults; absolute and "
                "relative prefixes at two levels; three base schemas one of which has its own base; diamond-shaped "
                "component imports with repeated imports; import/@src with a relative package name; base schemas "
                "importing one component along two paths), every single generic edit of each of their documents "
                "(pool of benign values and the full C10 pool) and random pairs of benign edits"
                + (" (quick: seeded sample of 70 + 25 + 25 per document)" if quick else " (400 pairs per document)")
                + "; for each accepted one: expansion computed by the specification, both loaded, "
                "every vocabulary line and random texts of 2..7 lines compared; non-trivial = a document to be judged")
    c10.run_batches(chk, items, 800, ["AcceptIffWellFormed", "ExpansionSameSchema", "StacksBalanced", "Emit"],
                    exp=True, replay=replay_g, tally=tally_g)
    loader_pass(chk, quick)
    chk.exhaustive = not quick
    chk.note("documents", len(items))
    chk.note("texts_per_accepted_document", "vocabulary (<= 40 lines) + %d random" % N_RANDOM["n"])
    chk.assumptions += [
        "environment tables as for C10",
        "order of merged children after schema-level extends is taken from the specification (bases last-listed "
        "first): the statement does not fix it",
        "where an inherited or merged item name is not a fixed point of the key type it is re-read under the "
        "expansion is not defined and only the composed document is checked (counted in the tally)"]


def replay(path):
    with open(path) as f:
        d = json.load(f)
    print(d["input"]["label"], "->", d.get("clause"))
    for r, x in d["input"].get("xml", {}).items():
        print("---", r)
        print(x)
    if "expansion_xml" in d["input"]:
        print("--- expansion")
        print(d["input"]["expansion_xml"])
    for k in ("text", "composed", "expansion", "spec", "observed"):
        if k in d:
            print(k, ":", d[k])
    return 0
