"""Schema documents, their abstract (expanded) records for ZLoad, their XML
rendering, the generated family and per-schema vocabularies.

A *document* mirrors the XML (extends / implements / attribute defaults are
written as the author would write them); expand() produces the record the
TLA+ loader specification works on (children written out, names normalised,
attribute names derived); to_xml() renders the document.  That the real
schema parser builds from to_xml(doc) exactly what expand(doc) says is
checked by digest comparison before any loader check uses it (and is the
subject of C10/C11).
"""
import random
from xml.sax.saxutils import escape, quoteattr

from . import refconv

DT_XML = {"wrap": "zcv.dts.wrap", "reject": "zcv.dts.reject", "boom": "zcv.dts.boom", "boomkey": "zcv.dts.boomkey",
          "dcerr": "zcv.dts.dcerr"}


# -- document constructors ---------------------------------------------------
def K(name, datatype=None, required=False, default=None, attribute=None, handler=None, defaults=()):
    return {"el": "key", "name": name, "attribute": attribute, "datatype": datatype, "required": required,
            "default": default, "defaults": list(defaults), "handler": handler, "type": None}


def MK(name, datatype=None, required=False, defaults=(), attribute=None, handler=None):
    return {"el": "multikey", "name": name, "attribute": attribute, "datatype": datatype, "required": required,
            "default": None, "defaults": list(defaults), "handler": handler, "type": None}


def SEC(type_, name="*", attribute=None, required=False, handler=None):
    return {"el": "section", "name": name, "attribute": attribute, "datatype": None, "required": required,
            "default": None, "defaults": [], "handler": handler, "type": type_}


def MSEC(type_, name="*", attribute=None, required=False, handler=None):
    return {"el": "multisection", "name": name, "attribute": attribute, "datatype": None, "required": required,
            "default": None, "defaults": [], "handler": handler, "type": type_}


def ABS(name):
    return {"abstract": True, "name": name}


def TYPE(name, children=(), keytype=None, datatype=None, extends=None, implements=None):
    return {"abstract": False, "name": name, "keytype": keytype, "datatype": datatype, "extends": extends,
            "implements": implements, "children": list(children)}


def SCHEMA(types=(), children=(), keytype=None, datatype=None, handler=None):
    return {"keytype": keytype, "datatype": datatype, "handler": handler, "types": list(types),
            "children": list(children)}


# -- expansion ---------------------------------------------------------------
class SchemaDocError(Exception):
    pass


def _wild_defaults(el, kt, raw):
    out = []
    for k, v in raw:
        rk = refconv.keyconv(kt, k)
        if rk is None:
            raise SchemaDocError("default key %r not convertible" % k)
        if el == "key":
            if any(rk == k2 for k2, _ in out):
                raise SchemaDocError("duplicate default key %r" % k)
            out.append([rk, v])
        else:
            for item in out:
                if item[0] == rk:
                    item[1].append(v)
                    break
            else:
                out.append([rk, [v]])
    return out


def expand_child(c, kt):
    name = c["name"]
    if name not in ("*", "+"):
        name = refconv.keyconv(kt, name)
        if name is None:
            raise SchemaDocError("name %r not convertible under %s" % (c["name"], kt))
    attr = c["attribute"]
    if not attr:
        if name in ("*", "+"):
            raise SchemaDocError("wildcard needs an attribute")
        bk = refconv.keyconv("basic-key", name)
        if bk is None:
            raise SchemaDocError("no attribute name derivable from %r" % name)
        attr = bk.replace("-", "_")
    is_key = c["el"] in ("key", "multikey")
    if is_key and name == "+":
        dflt = _wild_defaults(c["el"], kt, c["defaults"])
    elif c["el"] == "key":
        dflt = [c["default"].strip()] if c["default"] is not None else []
    elif c["el"] == "multikey":
        dflt = list(c["defaults"])
    else:
        dflt = []
    return {"kind": c["el"], "name": name, "attr": attr,
            "dt": (c["datatype"] or "string") if is_key else "",
            "stype": c["type"] or "", "req": bool(c["required"]), "dflt": dflt,
            "handler": (c["handler"] or "").lower(), "_raw": c}


def IMPORT(pkg):
    """A schema-level <import package=.../> placed among the type definitions."""
    return {"import": pkg}


def IMPORTSRC(pkg, file="lib.xml"):
    """A schema-level <import src="package:<pkg>:<file>"/>: the types of another schema (a library that lives
    in a generated package, so that a schema without a URL of its own can name it) are taken over."""
    return {"importsrc": (pkg, file)}


def _flatten_types(doc):
    """Type documents in definition order with schema-level imports replaced by the types of the component
    (a component may itself import components: each is read once, the first time it is reached)."""
    out, comps = [], []

    def walk(tds):
        for td in tds:
            if "import" in td:
                from . import packages
                if td["import"] not in comps:
                    comps.append(td["import"])
                    walk(packages.PKG_DOCS[td["import"]])
            elif "importsrc" in td:
                from . import packages
                walk(packages.LIB_DOCS[td["importsrc"]])
            else:
                out.append(td)
    walk(doc["types"])
    return out, comps


def expand(doc):
    types = {}
    flat, comps = _flatten_types(doc)
    for td in flat:
        n = td["name"].lower()
        if td["abstract"]:
            types[n] = {"abstract": True, "impl": set()}
            continue
        base = types[td["extends"].lower()] if td.get("extends") else None
        kt = td["keytype"] or (base["keytype"] if base else "basic-key")
        dt = td["datatype"] or (base["datatype"] if base else "null")
        children = []
        if base:
            for c in base["children"]:
                if c["kind"] in ("key", "multikey") and c["name"] == "+":
                    c = dict(c, dflt=_wild_defaults(c["kind"], kt, c["_raw"]["defaults"]))
                children.append(c)
        children += [expand_child(c, kt) for c in td["children"]]
        types[n] = {"abstract": False, "keytype": kt, "datatype": dt, "children": children}
        if td.get("implements"):
            types[td["implements"].lower()]["impl"].add(n)
    kt = doc["keytype"] or "basic-key"
    top = {"abstract": False, "keytype": kt, "datatype": doc["datatype"] or "null",
           "children": [expand_child(c, kt) for c in doc["children"]],
           "handler": (doc["handler"] or "").lower()}
    return {"top": top, "types": types, "comps": set(comps)}


def for_tla(rec):
    """Abstract record -> plain structure for tla_value (drops '_raw')."""
    def child(c):
        return {k: v for k, v in c.items() if not k.startswith("_")}

    def typ(t):
        if t["abstract"]:
            return {"abstract": True, "impl": set(t["impl"])}
        d = {"abstract": False, "keytype": t["keytype"], "datatype": t["datatype"],
             "children": [child(c) for c in t["children"]]}
        if "handler" in t:
            d["handler"] = t["handler"]
        return d
    types = {n: typ(t) for n, t in rec["types"].items()}
    types.setdefault("zz-unused", {"abstract": False, "keytype": "basic-key", "datatype": "null", "children": []})
    return {"top": typ(rec["top"]), "types": types, "comps": set(rec["comps"])}


# -- XML -----------------------------------------------------------------------
def _attrs(pairs):
    return "".join(" %s=%s" % (k, quoteattr(v)) for k, v in pairs if v is not None)


def _dt(name):
    return DT_XML.get(name, name) if name else None


def child_xml(c, ind):
    a = [("name", c["name"])] if c["el"] in ("key", "multikey") else [("type", c["type"]), ("name", c["name"])]
    a += [("attribute", c["attribute"]), ("datatype", _dt(c["datatype"])),
          ("required", "yes" if c["required"] else None), ("handler", c["handler"])]
    if c["el"] == "key" and c["default"] is not None:
        a.append(("default", c["default"]))
    inner = []
    if c["el"] in ("key", "multikey"):
        for d in c["defaults"]:
            if c["name"] == "+":
                inner.append("%s  <default key=%s>%s</default>" % (ind, quoteattr(d[0]), escape(d[1])))
            else:
                inner.append("%s  <default>%s</default>" % (ind, escape(d)))
    if inner:
        return "%s<%s%s>\n%s\n%s</%s>" % (ind, c["el"], _attrs(a), "\n".join(inner), ind, c["el"])
    return "%s<%s%s/>" % (ind, c["el"], _attrs(a))


def to_xml(doc, top="schema", extra_attrs=()):
    if doc.get("external"):
        return doc["xml"]
    out = ["<%s%s>" % (top, _attrs([("keytype", doc.get("keytype")), ("datatype", _dt(doc.get("datatype"))),
                                   ("handler", doc.get("handler"))] + list(extra_attrs)))]
    for td in doc["types"]:
        if "import" in td:
            out.append("  <import package=%s/>" % quoteattr(td["import"]))
            continue
        if "importsrc" in td:
            out.append("  <import src=%s/>" % quoteattr("package:%s:%s" % td["importsrc"]))
            continue
        if td["abstract"]:
            out.append("  <abstracttype name=%s/>" % quoteattr(td["name"]))
            continue
        a = [("name", td["name"]), ("keytype", td["keytype"]), ("datatype", _dt(td["datatype"])),
             ("extends", td.get("extends")), ("implements", td.get("implements"))]
        if td["children"]:
            out.append("  <sectiontype%s>" % _attrs(a))
            out += [child_xml(c, "    ") for c in td["children"]]
            out.append("  </sectiontype>")
        else:
            out.append("  <sectiontype%s/>" % _attrs(a))
    out += [child_xml(c, "  ") for c in doc.get("children", [])]
    out.append("</%s>" % top)
    return "\n".join(out) + "\n"


# -- the family ------------------------------------------------------------------
def interaction_schemas():
    """Hand-designed members: the rule interactions named by C01/C02."""
    S = []
    # 0 wildcard key next to a declared key and a section of a fixed name
    S.append(SCHEMA(types=[TYPE("t1", [K("k1", "integer")])],
                    children=[K("k1", "integer", default="7"), K("+", attribute="extra", defaults=[("d1", "dv")]),
                              SEC("t1", "s1")]))
    # 1 name reuse across two different slots, '+' and '*' multisections
    S.append(SCHEMA(types=[TYPE("t1", [K("k1")]), TYPE("t2", [MK("m1", "integer", defaults=["1", "2"])])],
                    children=[MSEC("t1", "+", "ones"), MSEC("t2", "*", "twos"), SEC("t1", "*", "one")]))
    # 2 abstract slot next to a fixed-name slot of an implementing type; extender is not an implementer
    S.append(SCHEMA(types=[ABS("abs1"), TYPE("t1", [K("k1")], implements="abs1"),
                           TYPE("t2", [K("k2", "boolean")], implements="abs1"),
                           TYPE("t3", [K("k3")], extends="t1")],
                    children=[SEC("t1", "main", required=True), MSEC("abs1", "*", "impls"), SEC("abs1", "+", "named")]))
    # 3 required items inside an optional section; defaults satisfying minOccurs
    S.append(SCHEMA(types=[TYPE("t1", [K("k1", required=True), MK("m1", "integer", required=True, defaults=["5"]),
                                        MK("m2", required=True), K("+", "integer", required=True, attribute="wild")]),
                           TYPE("t2", [SEC("t1", "inner", required=True)])],
                    children=[SEC("t1", "*", "opt"), SEC("t2", "*", "outer")]))
    # 4 '+' multikey with keyed defaults, all-or-nothing; multikey order
    S.append(SCHEMA(children=[MK("+", "integer", attribute="wm", defaults=[("a", "1"), ("A", "2"), ("b", "3")]),
                              MK("m1", "string-list"), K("k-dash", "byte-size", default="2kb")]))
    # 5 identifier key type (case-sensitive keys), derived type, section datatype that wraps
    S.append(SCHEMA(keytype="identifier",
                    types=[TYPE("t1", [K("Key1", "boolean"), K("+", attribute="rest")], keytype="identifier", datatype="wrap"),
                           TYPE("t2", [MK("more", "time-interval")], extends="t1")],
                    children=[K("Top", "port-number"), MSEC("t1", "*", "ones"), SEC("t2", "+", "two")]))
    # 6 nesting depth 3 with multisections at each level and a rejecting section datatype
    S.append(SCHEMA(types=[TYPE("leaf", [K("v", "float")]), TYPE("bad", [], datatype="reject"),
                           TYPE("mid", [MSEC("leaf", "*", "leaves"), SEC("bad", "*", "b")]),
                           TYPE("outer", [MSEC("mid", "+", "mids"), K("k1", "inet-address")])],
                    children=[MSEC("outer", "*", "outers")]))
    # 7 ipaddr-or-hostname key type with a wildcard multikey
    S.append(SCHEMA(types=[TYPE("hosts", [MK("+", attribute="addrs"), K("host-a", attribute="ha")],
                                keytype="ipaddr-or-hostname")],
                    children=[SEC("hosts", "*", "hosts", required=True)]))
    # 8 two abstract types, shared implementer names, fixed-name abstract slot
    S.append(SCHEMA(types=[ABS("abs1"), ABS("abs2"), TYPE("t1", [K("k1")], implements="abs1"),
                           TYPE("t2", [K("k1")], implements="abs2"), TYPE("t3", [], implements="abs1")],
                    children=[SEC("abs1", "fixed", required=False), MSEC("abs2", "+", "twos"), SEC("abs1", "*", "any")]))
    # 9 key and section sharing a name with different kinds; section slot before key
    S.append(SCHEMA(types=[TYPE("t1", [K("k1")])],
                    children=[SEC("t1", "k1", attribute="sec_k1"), K("k2"), K("+", attribute="wild"),
                              MSEC("t1", "+", "more")]))
    # 10 handlers everywhere (C16) with nesting
    S.append(SCHEMA(handler="top-h",
                    types=[TYPE("t1", [K("k1", handler="hk1"), MK("m1", "integer", handler="hm1")]),
                           TYPE("t2", [SEC("t1", "*", "inner", handler="hinner"), K("k2", handler="hk2")])],
                    children=[K("k0", "integer", handler="hk0"), MSEC("t2", "*", "twos", handler="htwos"),
                              SEC("t1", "+", "one", handler="hone")]))
    # 11 derived type chain of length 3 with overriding datatype and wildcard defaults
    S.append(SCHEMA(types=[TYPE("b0", [K("k0"), K("+", attribute="w", defaults=[("dk", "dv")])]),
                           TYPE("b1", [K("k1", "integer", default="1")], extends="b0", datatype="wrap"),
                           TYPE("b2", [MK("k2", "boolean")], extends="b1")],
                    children=[MSEC("b2", "*", "twos"), SEC("b0", "*", "zero"), SEC("b1", "+", "one")]))
    # 12 derived types that change the key type: wildcard defaults are re-normalised from the spelling
    #    in the schema (basic-key -> identifier and identifier -> basic-key); inherited names are fixed points
    S.append(SCHEMA(types=[TYPE("b0", [K("k0"), K("+", attribute="w", defaults=[("Path", "p"), ("d1", "dv")]),
                                        ]),
                           TYPE("b1", [K("k1")], extends="b0", keytype="identifier"),
                           TYPE("c0", [MK("+", "integer", attribute="wm", defaults=[("Alpha", "1"), ("beta", "2")])],
                                keytype="identifier"),
                           TYPE("c1", [K("own")], extends="c0", keytype="basic-key")],
                    children=[MSEC("b1", "*", "ones"), SEC("b0", "+", "zero"), MSEC("c1", "*", "cs"), SEC("c0", "+", "c")]))
    # 13 required wildcard maps that have schema defaults: a required map is filled by the text, not by its defaults
    #    (required multikeys, by contrast, are satisfied by theirs)
    S.append(SCHEMA(types=[TYPE("t1", [K("+", required=True, attribute="w", defaults=[("d1", "v1"), ("d2", "V2")])]),
                           TYPE("t2", [MK("+", "integer", required=True, attribute="wm", defaults=[("a", "12"), ("a", "-3")]),
                                       MK("m1", required=True, defaults=["v1"])])],
                    children=[MSEC("t1", "*", "ones"), SEC("t2", "*", "two"), K("k0")]))
    return S


_DTS = ["string", "integer", "boolean", "float", "port-number", "byte-size", "time-interval", "identifier",
        "basic-key", "string-list", "inet-address", "null"]


def random_schema(rng):
    """One random member: 1-3 concrete types (maybe abstract / derived), nesting <= 3."""
    kts = ["basic-key", "basic-key", "identifier"]
    types = []
    names = []
    nabs = rng.choice([0, 0, 1, 1, 2])
    absn = ["abs%d" % i for i in range(1, nabs + 1)]
    types += [ABS(a) for a in absn]
    ntypes = rng.randint(1, 4)

    def keys(kt, depth):
        out = []
        used = set()
        for i in range(rng.randint(0, 3)):
            nm = rng.choice(["k1", "k2", "k-3", "key4"]) if kt != "identifier" else rng.choice(["k1", "Key2", "k_3"])
            if nm.lower() in used:
                continue
            used.add(nm.lower())
            dt = rng.choice(_DTS)
            good = refconv.good_values(dt)
            if rng.random() < 0.5:
                out.append(K(nm, dt, required=rng.random() < 0.3,
                             default=None, handler=rng.choice([None, None, "h" + nm.replace("-", "").replace("_", "")])))
                if not out[-1]["required"] and rng.random() < 0.5:
                    out[-1]["default"] = rng.choice(good)
            else:
                out.append(MK(nm, dt, required=rng.random() < 0.3,
                              defaults=[rng.choice(good) for _ in range(rng.choice([0, 0, 1, 2]))],
                              handler=rng.choice([None, None, "h" + nm.replace("-", "").replace("_", "")])))
        if rng.random() < 0.4:
            dt = rng.choice(["string", "integer", "boolean"])
            good = refconv.good_values(dt)
            dk = [("d1", rng.choice(good)), ("D2", rng.choice(good))][:rng.randint(0, 2)]
            if rng.random() < 0.5:
                out.append(K("+", dt, required=rng.random() < 0.3, attribute="wild", defaults=dk))
            else:
                out.append(MK("+", dt, required=rng.random() < 0.3, attribute="wild", defaults=dk))
        return out

    def slots(avail, depth):
        out = []
        used = set()
        for i in range(rng.randint(0, 2)):
            if not avail:
                break
            t = rng.choice(avail)
            nm = rng.choice(["*", "+", "fix%d" % i])
            attr = "s%d_%d" % (depth, i)
            if rng.random() < 0.5 or nm.startswith("fix") is False and rng.random() < 0.5:
                if nm.startswith("fix"):
                    out.append(SEC(t, nm, attribute=attr, required=rng.random() < 0.3))
                else:
                    out.append(MSEC(t, nm, attribute=attr, required=rng.random() < 0.3))
            else:
                out.append(SEC(t, nm, attribute=attr, required=rng.random() < 0.3))
        return out

    avail = list(absn)
    for i in range(ntypes):
        n = "t%d" % (i + 1)
        kt = rng.choice(kts)
        ext = None
        cands = [t for t in types if not t["abstract"]]
        if cands and rng.random() < 0.3:
            ext = rng.choice(cands)["name"]
            kt = None
        impl = rng.choice(absn) if absn and rng.random() < 0.6 else None
        if ext:
            # own items of a derived type: fresh names only (inherited names and attributes are taken)
            ch = [K("own%d" % i, rng.choice(_DTS)), MK("ownm%d" % i, "integer", defaults=["4"])][:rng.randint(0, 2)]
        else:
            ch = keys(kt or "basic-key", i) + slots(avail, i)
            rng.shuffle(ch)
        types.append(TYPE(n, ch, keytype=kt if kt != "basic-key" else None,
                          datatype=rng.choice([None, None, "wrap"]), extends=ext, implements=impl))
        avail.append(n)
    topkt = rng.choice(kts)
    children = keys(topkt, 9) + slots(avail, 9)
    rng.shuffle(children)
    return SCHEMA(types=types, children=children, keytype=None if topkt == "basic-key" else topkt,
                  datatype=rng.choice([None, None, None, "wrap"]),
                  handler=rng.choice([None, None, "toph"]))


def valid_doc(doc):
    """Rule-abiding by construction?  (expansion works, names/attributes unique
    per container including inherited ones, wildcard key not before... )"""
    if doc.get("external"):
        # a schema that lives outside this module (composed documents on disk): its record was read off the
        # schema object the real parser built, after the schema-language specification (C10/C11) agreed with it
        return doc["rec"]
    try:
        rec = expand(doc)
    except (SchemaDocError, KeyError):
        return None
    for T in [rec["top"]] + [t for t in rec["types"].values() if not t["abstract"]]:
        names = [c["name"] for c in T["children"] if not (c["kind"] in ("section", "multisection") and c["name"] in "*+")]
        attrs = [c["attr"] for c in T["children"]]
        if len(set(names)) != len(names) or len(set(attrs)) != len(attrs):
            return None
        for c in T["children"]:
            if c["kind"] == "key" and c["req"] and c["dflt"] and c["name"] != "+":
                return None
            if c["kind"] == "multisection" and c["name"] not in "*+":
                return None
            if not __import__("re").match(r"[_a-zA-Z][_a-zA-Z0-9]*\Z", c["attr"]):
                return None
            if c["attr"].startswith("getSection") or c["attr"] in ("_name", "_matcher", "_attributes"):
                return None
    return rec


def family(seed, n_random):
    rng = random.Random(seed)
    docs = interaction_schemas()
    tries = 0
    while len(docs) < len(interaction_schemas()) + n_random and tries < 50 * (n_random + 1):
        tries += 1
        d = random_schema(rng)
        if valid_doc(d) is not None:
            docs.append(d)
    return docs


# -- vocabulary ----------------------------------------------------------------------
def _case_variant(kt, name):
    if kt == "identifier":
        v = name.swapcase()
    else:
        v = name.upper() if name.upper() != name else name.lower()
    return v if v != name else None


def vocabulary(rec, cap):
    """Lines (strings) over the schema's vocabulary plus out-of-vocabulary
    tokens, most useful first, at most `cap`."""
    tier1, tier2, tier3 = [], [], []
    conts = [("", rec["top"])] + [(n, t) for n, t in sorted(rec["types"].items()) if not t["abstract"]]
    used_types = set()
    fixed_names = set()
    for _, T in conts:
        kt = T["keytype"]
        for c in T["children"]:
            if c["kind"] in ("key", "multikey"):
                good = refconv.good_values(c["dt"])
                bad = refconv.bad_values(c["dt"])
                if c["name"] == "+":
                    ks = ["host-b", "HOST-B", "10.0.0.1"] if kt == "ipaddr-or-hostname" else ["x1", "X1", "y2"]
                    tier1.append("%s %s" % (ks[0], good[0]))
                    tier2.append("%s %s" % (ks[1], good[-1]))
                    tier2.append("%s %s" % (ks[2], good[0]))
                    if bad:
                        tier2.append(("%s %s" % (ks[2], bad[0])).rstrip())
                else:
                    tier1.append(("%s %s" % (c["name"], good[0])).rstrip())
                    if len(good) > 1:
                        tier2.append(("%s %s" % (c["name"], good[1])).rstrip())
                    cv = _case_variant(kt, c["name"])
                    if cv:
                        tier2.append(("%s %s" % (cv, good[0])).rstrip())
                    if bad:
                        tier2.append(("%s %s" % (c["name"], bad[0])).rstrip())
            else:
                used_types.add(c["stype"])
                if c["name"] not in ("*", "+"):
                    fixed_names.add(c["name"])
    tier2.insert(0, "# c\x0czz v1")       # one comment line, whatever str.splitlines() makes of a form feed
    tier2.append("zz v1")
    tier3.append("9k v1")
    tnames = sorted(n for n, t in rec["types"].items())
    for tn in tnames:
        t = rec["types"][tn]
        cands = sorted(t["impl"]) if t["abstract"] else [tn]
        if t["abstract"]:
            tier2.append("<%s n1>" % tn)          # the abstract type itself
        for cn in cands:
            pass
    concrete = [n for n in tnames if not rec["types"][n]["abstract"]]
    for tn in concrete:
        tier1.append("<%s>" % tn)
        tier1.append("<%s n1>" % tn)
        tier1.append("</%s>" % tn)
        for fx in sorted(fixed_names):
            tier1.append("<%s %s>" % (tn, fx))
            if "s" in fx:       # U+017F lower-cases to itself (and case-folds to 's'): not the fixed name
                tier1.append("<%s %s/>" % (tn, fx.replace("s", "\u017f")))
        if "s" in tn:           # ... and not the declared type
            tier1.append("<%s n1/>" % tn.replace("s", "\u017f", 1))
        tier2.append("<%s N1>" % tn.upper())
        tier2.append("<%s n\u00df/>" % tn)     # a name that lower-cases to itself but case-folds to 'nss'
        tier2.append("<%s/>" % tn)
        tier3.append("<%s *>" % tn)
        tier3.append("<%s +>" % tn)
        tier3.append("</%s >" % tn.upper())
    tier2.append("<nosuch n1>")
    tier3.append("# comment")
    tier3.append("<t1 n1")
    out = []
    for l in tier1 + tier2 + tier3:
        if l not in out:
            out.append(l)
    return out[:cap]
