---------------------------- MODULE ZLoadFn ----------------------------
(* The schema-directed loader as a step function.                          *)
(*                                                                         *)
(* Transcribes, one operator per critical section of the code:             *)
(*   cfgparser.ZConfigParser      line dispatch, own section stack,        *)
(*                                %define / %include / %import, position   *)
(*                                fix-ups of errors raised by the matcher  *)
(*   loader.ConfigLoader          startSection / endSection /              *)
(*                                includeConfiguration / importSchema...   *)
(*   matcher.BaseMatcher          addValue, createChildMatcher, addSection,*)
(*                                finish, constuct                         *)
(*   info.SectionType             getsectioninfo, isAllowedName            *)
(*   cmdline                      option bags (overrides)                  *)
(* Module ZLoad turns the step function into a state machine and states    *)
(* the properties; ZConform holds the declarative side.                    *)
(*                                                                         *)
(* Text is concrete (sequences of characters, classified by ZLinesFn);     *)
(* tokens handed to the matcher are strings.  What key types and datatypes *)
(* do to a token is environment (KeyConvOf / ConvOf): a table given with   *)
(* the scenario (G) or recorded from the execution (V).                    *)
EXTENDS ZLinesFn, Integers

CONSTANTS
  KeyConvOf(_, _),   \* (key type, token)  -> [ok, v]   normalised key or refusal
  ConvOf(_, _),      \* (datatype, text)   -> [ok, v]   converted value (a string naming it) or ValueError
  SecConvOf(_, _),   \* (datatype, section value) -> [ok, v]
  ResLines(_),       \* resource id -> its lines (sequence of character sequences)
  Resolve(_, _),     \* (including resource id, %include argument) -> resource id or "" (cannot be opened)
  Package(_)         \* %import argument -> [ok, types, impl, imports]: the component of that package (types it defines,
                     \* implementers it adds to abstract types of the schema); ok = FALSE if not importable

NoKey == "~none~"       \* what a '*' / '+' section slot has in place of a key ('~' never occurs in a token)

-------------------------------------------------------------------------
(* Schema access.  A type record is                                        *)
(*   [abstract |-> FALSE, keytype, datatype, children : Seq(child)] or     *)
(*   [abstract |-> TRUE, impl : set of type names]                         *)
(* a child [kind, name, attr, dt, stype, req, dflt, handler].              *)
IsKeyKind(c)  == c.kind \in {"key", "multikey"}
IsSectKind(c) == c.kind \in {"section", "multisection"}
IsWildKey(c)  == IsKeyKind(c) /\ c.name = "+"
ChildKey(c)   == IF IsSectKind(c) /\ c.name \in {"*", "+"} THEN NoKey ELSE c.name

Implementers(vocab, an) == IF an \in DOMAIN vocab /\ vocab[an].abstract THEN vocab[an].impl ELSE {}

-------------------------------------------------------------------------
(* Errors.  kind: "syntax" (ConfigurationSyntaxError incl. replacement     *)
(* errors), "conv" (DataConversionError), "substsyntax", "config" (any     *)
(* other ConfigurationError).  line = 0 means the error carries no line,   *)
(* res = "" no resource.                                                   *)
Err(kind, line, res, value, why) ==
  [r |-> "err", kind |-> kind, line |-> line, res |-> res, value |-> value, why |-> why]
NoErr == [r |-> "none"]
IsErr(x) == x.r = "err"

-------------------------------------------------------------------------
(* Matchers.  cells[i] belongs to child i of the matcher's type:           *)
(*   key            <<>> or <<vi>>          multikey       Seq(vi)         *)
(*   '+' key        Seq(<<k, vi>>)          '+' multikey   Seq(<<k,Seq(vi)>>) *)
(*   section        <<>> or <<sv>>          multisection   Seq(sv)         *)
(* vi = [v, line, res] (ValueInfo), sv = a section value.                  *)
VI(v, line, res) == [v |-> v, line |-> line, res |-> res]

NoBag == [on |-> FALSE, keys |-> <<>>, sects |-> <<>>]

NewMatcher(vocab, tname, T, name, slot) ==
  [tname |-> tname, name |-> name, slot |-> slot,
   cells |-> [i \in 1..Len(T.children) |-> <<>>],
   names |-> {}, bag |-> NoBag]

RECURSIVE FirstKeyMatch(_, _, _)
FirstKeyMatch(ch, rk, i) == IF i > Len(ch) THEN 0
                            ELSE IF ChildKey(ch[i]) = rk THEN i ELSE FirstKeyMatch(ch, rk, i + 1)
RECURSIVE LastWild(_, _)
LastWild(ch, i) == IF i = 0 THEN 0 ELSE IF IsWildKey(ch[i]) THEN i ELSE LastWild(ch, i - 1)

RECURSIVE AssocIndex(_, _, _)
AssocIndex(pairs, k, i) == IF i > Len(pairs) THEN 0
                           ELSE IF pairs[i][1] = k THEN i ELSE AssocIndex(pairs, k, i + 1)

(* BaseMatcher.addValue after key normalisation.  Returns [e, cells].      *)
AddValueRK(T, cells, rk, vi) ==
  LET ch  == T.children
      j   == FirstKeyMatch(ch, rk, 1)
      w   == LastWild(ch, Len(ch))
      idx == IF j > 0 THEN j ELSE w
      fail(why) == [e |-> Err("config", vi.line, vi.res, "", why), cells |-> cells]
      set(v)    == [e |-> NoErr, cells |-> [cells EXCEPT ![idx] = v]]
  IN  IF idx = 0 THEN fail("not a known key name")
      ELSE LET c == ch[idx] IN
        IF ~IsKeyKind(c) THEN fail("not a valid key name")
        ELSE IF c.name # "+" THEN
               (IF c.kind = "key"
                THEN (IF cells[idx] = <<>> THEN set(<<vi>>) ELSE fail("does not support multiple values"))
                ELSE set(Append(cells[idx], vi)))
        ELSE LET p == AssocIndex(cells[idx], rk, 1) IN
             IF c.kind = "key"
             THEN (IF p > 0 THEN fail("too many values") ELSE set(Append(cells[idx], <<rk, vi>>)))
             ELSE (IF p > 0 THEN set([cells[idx] EXCEPT ![p] = <<rk, Append(@[2], vi)>>])
                   ELSE set(Append(cells[idx], <<rk, <<vi>>>>)))

-------------------------------------------------------------------------
(* SectionType.getsectioninfo(type, name): the first declared child that   *)
(* claims the header decides.  Returns [e, idx].                           *)
RECURSIVE SectionInfo(_, _, _, _, _)
SectionInfo(vocab, ch, tn, name, i) ==
  IF i > Len(ch) THEN [e |-> "no matching section defined", idx |-> 0]
  ELSE LET c == ch[i]
           k == ChildKey(c)
       IN
    IF k # NoKey THEN
         (IF name # "" /\ k = name THEN
              (IF ~IsSectKind(c) THEN [e |-> "section name already in use for key", idx |-> 0]
               ELSE IF vocab[c.stype].abstract
                    THEN (IF tn \in vocab[c.stype].impl THEN [e |-> "", idx |-> i]
                          ELSE [e |-> "section type not allowed for name", idx |-> 0])
                    ELSE (IF c.stype = tn THEN [e |-> "", idx |-> i]
                          ELSE [e |-> "name must be used for another section type", idx |-> 0]))
          ELSE SectionInfo(vocab, ch, tn, name, i + 1))
    ELSE IF c.stype = tn THEN
         (IF name = "" /\ c.name # "*" THEN [e |-> "sections must be named", idx |-> 0]
          ELSE [e |-> "", idx |-> i])
    ELSE IF vocab[c.stype].abstract /\ tn \in vocab[c.stype].impl THEN [e |-> "", idx |-> i]
    ELSE SectionInfo(vocab, ch, tn, name, i + 1)

(* SectionInfo.isAllowedName                                               *)
AllowedName(c, name) ==
  IF name = "*" \/ name = "+" THEN FALSE
  ELSE IF c.name = "+" THEN name # ""
  ELSE IF c.name = "*" THEN TRUE
  ELSE name = c.name

(* ConfigLoader.startSection + BaseMatcher.createChildMatcher +            *)
(* SectionMatcher.__init__.  Returns [e (message or ""), idx].             *)
StartSect(vocab, T, tn, name) ==
  IF tn \notin DOMAIN vocab THEN [e |-> "unknown type name", idx |-> 0]
  ELSE IF vocab[tn].abstract THEN [e |-> "concrete sections cannot match abstract section types", idx |-> 0]
  ELSE LET si == SectionInfo(vocab, T.children, tn, name, 1) IN
       IF si.e # "" THEN si
       ELSE LET c == T.children[si.idx] IN
            IF ~AllowedName(c, name) THEN [e |-> "not an allowed name", idx |-> 0]
            ELSE IF name = "" /\ c.name # "*" THEN [e |-> "sections may not be unnamed", idx |-> 0]
            ELSE si

-------------------------------------------------------------------------
(* BaseMatcher.finish: occurrence checks and defaults, child by child in   *)
(* schema order.  Returns [e, cells].                                      *)
DefaultVI(v) == VI(v, 0, "~schema~")

DefaultCell(c) ==
  IF c.kind = "key" /\ c.name # "+" THEN [i \in 1..Len(c.dflt) |-> DefaultVI(c.dflt[i])]
  ELSE IF c.kind = "multikey" /\ c.name # "+" THEN [i \in 1..Len(c.dflt) |-> DefaultVI(c.dflt[i])]
  ELSE IF c.kind = "key" THEN [i \in 1..Len(c.dflt) |-> <<c.dflt[i][1], DefaultVI(c.dflt[i][2])>>]
  ELSE [i \in 1..Len(c.dflt) |->
          <<c.dflt[i][1], [j \in 1..Len(c.dflt[i][2]) |-> DefaultVI(c.dflt[i][2][j])]>>]

FinishChild(c, v, what) ==
  LET fail(why) == [e |-> Err("config", 0, "", "", why), v |-> v]
      ok(x)     == [e |-> NoErr, v |-> x]
  IN
  IF IsWildKey(c) THEN
       (IF c.req /\ Len(v) = 0 THEN fail("no keys defined for the key/value map")
        ELSE IF c.kind = "multikey" /\ v = <<>> THEN ok(DefaultCell(c))
        ELSE ok(v))                     \* defaults of a '+' key are applied when it is converted
  ELSE IF c.kind = "key" THEN
       (IF v = <<>> /\ c.req THEN fail("no values for key; 1 required")
        ELSE IF v = <<>> THEN ok(DefaultCell(c)) ELSE ok(v))
  ELSE IF c.kind = "section" THEN
       (IF v = <<>> /\ c.req THEN fail("no values for section; 1 required") ELSE ok(v))
  ELSE IF c.kind = "multikey" THEN
       (LET v2 == IF v = <<>> THEN DefaultCell(c) ELSE v
        IN  IF c.req /\ Len(v2) < 1 THEN fail("not enough values") ELSE ok(v2))
  ELSE (IF c.req /\ Len(v) < 1 THEN fail("not enough values") ELSE ok(v))

RECURSIVE FinishFrom(_, _, _)
FinishFrom(ch, cells, i) ==
  IF i > Len(ch) THEN [e |-> NoErr, cells |-> cells]
  ELSE LET f == FinishChild(ch[i], cells[i], i)
       IN  IF IsErr(f.e) THEN [e |-> f.e, cells |-> cells]
           ELSE FinishFrom(ch, [cells EXCEPT ![i] = f.v], i + 1)

-------------------------------------------------------------------------
(* BaseMatcher.constuct: conversions in schema order; returns              *)
(*   [e, attrs : Seq(<<attr, value>>), hl : handlers appended, calls]      *)
(* Values: [t |-> "none"] | [t |-> "v", v] | [t |-> "list", items]         *)
(*   | [t |-> "map", items : Seq(<<k, v>>)] | [t |-> "mapl", items :       *)
(*   Seq(<<k, Seq(v)>>)] | [t |-> "sec", v] | [t |-> "secs", items]        *)
VNone == [t |-> "none"]

(* Convert a sequence of ValueInfo; stops at the first failure.            *)
RECURSIVE ConvList(_, _, _, _)
ConvList(dt, vis, i, acc) ==
  IF i > Len(vis) THEN [e |-> NoErr, vs |-> acc]
  ELSE LET r == ConvOf(dt, vis[i].v)
       IN  IF ~r.ok THEN [e |-> Err(IF r.v = "~fault~" THEN "fault" ELSE "conv",
                                    vis[i].line, vis[i].res, vis[i].v, "ValueError"), vs |-> acc]
           ELSE ConvList(dt, vis, i + 1, Append(acc, r.v))

RECURSIVE ConvMapL(_, _, _, _)
ConvMapL(dt, pairs, i, acc) ==
  IF i > Len(pairs) THEN [e |-> NoErr, vs |-> acc]
  ELSE LET r == ConvList(dt, pairs[i][2], 1, <<>>)
       IN  IF IsErr(r.e) THEN [e |-> r.e, vs |-> acc]
           ELSE ConvMapL(dt, pairs, i + 1, Append(acc, <<pairs[i][1], r.vs>>))

RECURSIVE ConvSecs(_, _, _, _)
ConvSecs(vocab, svs, i, acc) ==
  IF i > Len(svs) THEN [e |-> NoErr, vs |-> acc]
  ELSE LET r == SecConvOf(vocab[svs[i].type].datatype, svs[i])
       IN  IF ~r.ok THEN [e |-> Err(IF vocab[svs[i].type].datatype = "boom" THEN "fault" ELSE "conv",
                                    -1, "", "~section~", "ValueError"), vs |-> acc]
           ELSE ConvSecs(vocab, svs, i + 1, Append(acc, r.v))

ConstructChild(vocab, c, v) ==
  IF c.kind = "multisection" THEN
       (LET r == ConvSecs(vocab, v, 1, <<>>) IN [e |-> r.e, v |-> [t |-> "secs", items |-> r.vs]])
  ELSE IF c.kind = "section" THEN
       (IF v = <<>> THEN [e |-> NoErr, v |-> VNone]
        ELSE LET r == ConvSecs(vocab, v, 1, <<>>)
             IN  [e |-> r.e, v |-> IF IsErr(r.e) THEN VNone ELSE [t |-> "sec", v |-> r.vs[1]]])
  ELSE IF c.kind = "multikey" /\ c.name = "+" THEN
       (LET r == ConvMapL(c.dt, v, 1, <<>>) IN [e |-> r.e, v |-> [t |-> "mapl", items |-> r.vs]])
  ELSE IF c.kind = "multikey" THEN
       (LET r == ConvList(c.dt, v, 1, <<>>) IN [e |-> r.e, v |-> [t |-> "list", items |-> r.vs]])
  ELSE IF c.name = "+" THEN
       (LET src == IF v = <<>> THEN DefaultCell(c) ELSE v
            r   == ConvList(c.dt, [i \in 1..Len(src) |-> src[i][2]], 1, <<>>)
        IN  [e |-> r.e,
             v |-> [t |-> "map", items |-> [i \in 1..Len(r.vs) |-> <<src[i][1], r.vs[i]>>]]])
  ELSE (IF v = <<>> THEN [e |-> NoErr, v |-> VNone]
        ELSE LET r == ConvList(c.dt, v, 1, <<>>)
             IN  [e |-> r.e, v |-> IF IsErr(r.e) THEN VNone ELSE [t |-> "v", v |-> r.vs[1]]])

RECURSIVE ConstructFrom(_, _, _, _, _, _)
ConstructFrom(vocab, ch, cells, i, attrs, hl) ==
  IF i > Len(ch) THEN [e |-> NoErr, attrs |-> attrs, hl |-> hl]
  ELSE LET r == ConstructChild(vocab, ch[i], cells[i])
       IN  IF IsErr(r.e) THEN [e |-> r.e, attrs |-> attrs, hl |-> hl]
           ELSE ConstructFrom(vocab, ch, cells, i + 1, Append(attrs, <<ch[i].attr, r.v>>),
                              IF ch[i].handler = "" THEN hl ELSE Append(hl, <<ch[i].handler, r.v>>))

SectionValue(tname, name, attrs) == [type |-> tname, name |-> name, attrs |-> attrs]

-------------------------------------------------------------------------
(* Option bags (cmdline).  An override is [path : Seq(string), val].       *)
(* bag.keys : Seq(<<realkey, Seq(val)>>) in insertion order,               *)
(* bag.sects: Seq(override) with at least two path components.             *)
RECURSIVE BagAddKey(_, _, _)
BagAddKey(keys, rk, val) ==
  LET p == AssocIndex(keys, rk, 1)
  IN  IF p > 0 THEN [keys EXCEPT ![p] = <<rk, Append(@[2], val)>>]
      ELSE Append(keys, <<rk, <<val>>>>)

(* ExtendedConfigLoader.addOption: "path/to/key=value"; a specifier without *)
(* "=" or with an empty path component is refused when it is added.        *)
RECURSIVE SplitOn(_, _)
SplitOn(s, c) == LET p == IndexOf(s, c)
                 IN  IF p = 0 THEN <<s>> ELSE <<Sub(s, 1, p - 1)>> \o SplitOn(From(s, p + 1), c)

ParseSpec(spec) ==
  LET e == IndexOf(spec, "=") IN
  IF e = 0 THEN [ok |-> FALSE]
  ELSE LET comps == SplitOn(Sub(spec, 1, e - 1), "/") IN
       IF \E i \in 1..Len(comps) : comps[i] = <<>> THEN [ok |-> FALSE]
       ELSE [ok |-> TRUE, path |-> [i \in 1..Len(comps) |-> Str(comps[i])], val |-> Str(From(spec, e + 1))]

RECURSIVE ParseSpecs(_, _, _)
ParseSpecs(specs, i, acc) ==
  IF i > Len(specs) THEN [ok |-> TRUE, opts |-> acc]
  ELSE LET p == ParseSpec(specs[i])
       IN  IF ~p.ok THEN [ok |-> FALSE, opts |-> acc]
           ELSE ParseSpecs(specs, i + 1, Append(acc, [path |-> p.path, val |-> p.val]))

(* OptionBag.__init__: a one-component path is a key of this section and   *)
(* goes through the section's key type; longer paths wait for a section.   *)
RECURSIVE CookBag(_, _, _, _)
CookBag(kt, opts, i, bag) ==
  IF i > Len(opts) THEN [e |-> NoErr, bag |-> bag]
  ELSE LET o == opts[i] IN
       IF Len(o.path) = 1
       THEN LET r == KeyConvOf(kt, o.path[1])
            IN  IF ~r.ok THEN [e |-> Err("conv", -1, "~option~", o.path[1], "ValueError"), bag |-> bag]
                ELSE CookBag(kt, opts, i + 1, [bag EXCEPT !.keys = BagAddKey(@, r.v, o.val)])
       ELSE CookBag(kt, opts, i + 1, [bag EXCEPT !.sects = Append(@, o)])

BagHasKey(bag, rk) == bag.on /\ AssocIndex(bag.keys, rk, 1) > 0

(* OptionBag.get_section_info(type, name): items whose first component      *)
(* lower-cased equals the name or, as a basic key, the type, move to the    *)
(* child.  Returns [e, taken, kept].                                        *)
RECURSIVE BagSplit(_, _, _, _, _, _)
BagSplit(sects, tn, name, i, taken, kept) ==
  IF i > Len(sects) THEN [e |-> NoErr, taken |-> taken, kept |-> kept]
  ELSE LET o  == sects[i]
           bk == KeyConvOf("basic-key", o.path[1])
           lc == KeyConvOf("~lower~", o.path[1])
       IN  IF ~bk.ok THEN [e |-> Err("syntax", 0, "", o.path[1], "could not convert basic-key value"),
                           taken |-> taken, kept |-> kept]
           ELSE IF (name # "" /\ lc.v = name) \/ bk.v = tn
                THEN BagSplit(sects, tn, name, i + 1, Append(taken, [o EXCEPT !.path = Tail(@)]), kept)
                ELSE BagSplit(sects, tn, name, i + 1, taken, Append(kept, o))

-------------------------------------------------------------------------
(* The machine.  State record:                                             *)
(*   ps    parser frames [rid, n, secs] - secs = that parser's own stack   *)
(*         of <<type, name>>; the last frame is the one being read         *)
(*   ms    open matchers, ms[1] is the schema's                            *)
(*   defs  %define table <<name, TRUE, value>> (lookup format of ZSubstFn) *)
(*   vocab type table of this load (schema + imported components)          *)
(*   comps imported component names                                        *)
(*   hl    handler list                                                    *)
(*   ev    observable events (opens / closes of resources)                 *)
(*   out   [r |-> "run"] or the outcome                                    *)
Frame(rid) == [rid |-> rid, n |-> 0, secs |-> <<>>]

TopType(S, m) == IF Len(m.ms) = 1 THEN S.top ELSE m.vocab[m.ms[Len(m.ms)].tname]
(* A failing load unwinds: every resource still open is closed, innermost  *)
(* first (the `with` blocks of loadURL / includeConfiguration).            *)
Fail(m, e)    == [m EXCEPT !.out = e,
                           !.ev = @ \o [i \in 1..Len(m.ps) |-> <<"close", m.ps[Len(m.ps) + 1 - i].rid>>]]

LoadStart(S, rid, specs) ==
  LET ps   == ParseSpecs(specs, 1, <<>>)
      opts == ps.opts
      base == [ps |-> <<Frame(rid)>>,
               ms |-> <<NewMatcher(S.types, "", S.top, "", 0)>>,
               defs |-> <<>>, vocab |-> S.types, comps |-> S.comps, hl |-> <<>>,
               ev |-> <<<<"open", rid>>>>, out |-> [r |-> "run"]]
  IN  IF ~ps.ok    \* refused when it is added, before anything is opened
      THEN [base EXCEPT !.out = Err("syntax", -1, "~option~", "", "invalid configuration specifier"), !.ev = <<>>]
      ELSE IF opts = <<>> THEN base
      ELSE LET b == CookBag(S.top.keytype, opts, 1, [on |-> TRUE, keys |-> <<>>, sects |-> <<>>])
           IN  IF IsErr(b.e) THEN Fail(base, b.e)
               ELSE [base EXCEPT !.ms[1].bag = b.bag]

(* Substitution against the current definitions.                           *)
DefScn(m, src) == [src |-> src, mk |-> "table", ek |-> "none", mtab |-> m.defs, etab |-> <<>>]
Expand(m, src) == IF src = <<>> THEN Ok("") ELSE Replacement(DefScn(m, src))

CurFrame(m) == m.ps[Len(m.ps)]
CurLine(m)  == CurFrame(m).n
CurRes(m)   == CurFrame(m).rid

SubstErr(m, e) == IF e.r = "miss" THEN Err("syntax", CurLine(m), CurRes(m), "", "no replacement")
                  ELSE Err("substsyntax", CurLine(m), CurRes(m), "", "malformed substitution")

(* handle_key_value *)
StepKV(S, m, c) ==
  LET x == Expand(m, c.value) IN
  IF x.r # "ok" THEN Fail(m, SubstErr(m, x))
  ELSE LET T   == TopType(S, m)
           top == m.ms[Len(m.ms)]
           rk  == KeyConvOf(T.keytype, Str(c.key))
       IN  IF ~rk.ok THEN Fail(m, Err("conv", CurLine(m), CurRes(m), Str(c.key), "ValueError"))
           ELSE IF BagHasKey(top.bag, rk.v) THEN m                \* the file's value is overridden
           ELSE LET a == AddValueRK(T, top.cells, rk.v, VI(x.v, CurLine(m), CurRes(m)))
                IN  IF IsErr(a.e) THEN Fail(m, a.e)
                    ELSE [m EXCEPT !.ms[Len(m.ms)].cells = a.cells]

(* matcher.finish() [+ finish_optionbag] + constuct() of the top matcher.   *)
(* Returns [e, sv, hl].                                                    *)
RECURSIVE InjectVals(_, _, _, _, _)
InjectVals(T, cells, rk, vals, i) ==
  IF i > Len(vals) THEN [e |-> NoErr, cells |-> cells]
  ELSE LET a == AddValueRK(T, cells, rk, VI(vals[i], -1, "~option~"))
       IN  IF IsErr(a.e) THEN a ELSE InjectVals(T, a.cells, rk, vals, i + 1)

RECURSIVE InjectKeys(_, _, _, _)
InjectKeys(T, cells, keys, i) ==
  IF i > Len(keys) THEN [e |-> NoErr, cells |-> cells]
  ELSE LET a == InjectVals(T, cells, keys[i][1], keys[i][2], 1)
       IN  IF IsErr(a.e) THEN a ELSE InjectKeys(T, a.cells, keys, i + 1)

FinishMatcher(m, T, M) ==
  LET inj == IF M.bag.on THEN InjectKeys(T, M.cells, M.bag.keys, 1) ELSE [e |-> NoErr, cells |-> M.cells]
  IN  IF IsErr(inj.e) THEN [e |-> inj.e, sv |-> <<>>, hl |-> m.hl]
      ELSE IF M.bag.on /\ M.bag.sects # <<>>
           THEN [e |-> Err("config", 0, "", "", "not all command line options were consumed"),
                 sv |-> <<>>, hl |-> m.hl]
      ELSE LET f == FinishFrom(T.children, inj.cells, 1) IN
           IF IsErr(f.e) THEN [e |-> f.e, sv |-> <<>>, hl |-> m.hl]
           ELSE LET k == ConstructFrom(m.vocab, T.children, f.cells, 1, <<>>, m.hl) IN
                IF IsErr(k.e) THEN [e |-> k.e, sv |-> <<>>, hl |-> k.hl]
                ELSE [e |-> NoErr, sv |-> SectionValue(M.tname, M.name, k.attrs), hl |-> k.hl]

(* endSection: finish the section's matcher, add the value to the parent.  *)
(* `fixup` is the position repair of cfgparser.end_section.                *)
CloseTop(S, m, fixup) ==
  LET d   == Len(m.ms)
      M   == m.ms[d]
      T   == m.vocab[M.tname]
      P   == m.ms[d - 1]
      fin == FinishMatcher(m, T, M)
      repair(e) ==
        IF ~fixup \/ e.kind = "fault" THEN e      \* an exception of a datatype function passes through unchanged
        ELSE IF e.kind = "conv"
             THEN [e EXCEPT !.line = IF e.line < 0 THEN CurLine(m) ELSE e.line,
                            !.res  = IF e.res = "" THEN CurRes(m) ELSE e.res]
             ELSE Err("syntax", CurLine(m), CurRes(m), "", e.why)
  IN  IF IsErr(fin.e) THEN Fail(m, repair(fin.e))
      ELSE IF M.name # "" /\ M.name \in P.names
           THEN Fail(m, repair(Err("config", 0, "", "", "section names must not be re-used")))
      ELSE LET c == (IF d = 2 THEN S.top ELSE m.vocab[P.tname]).children[M.slot] IN
           IF c.kind = "section" /\ P.cells[M.slot] # <<>>
           THEN Fail(m, repair(Err("config", 0, "", "", "too many instances of section")))
           ELSE [m EXCEPT !.ms = [Sub(m.ms, 1, d - 1) EXCEPT ![d - 1].cells[M.slot] = Append(@, fin.sv),
                                                             ![d - 1].names =
                                                                IF M.name = "" THEN @ ELSE @ \cup {M.name}],
                          !.hl = fin.hl]

(* start_section *)
StepOpen(S, m, c) ==
  LET tn   == Str(c.type)
      name == Str(c.name)
      T    == TopType(S, m)
      top  == m.ms[Len(m.ms)]
      st   == StartSect(m.vocab, T, tn, name)
  IN  IF st.e # "" THEN Fail(m, Err("syntax", CurLine(m), CurRes(m), "", st.e))
      ELSE LET nm0 == NewMatcher(m.vocab, tn, m.vocab[tn], name, st.idx)
               sp  == IF top.bag.on THEN BagSplit(top.bag.sects, tn, name, 1, <<>>, <<>>)
                      ELSE [e |-> NoErr, taken |-> <<>>, kept |-> <<>>]
           IN  IF IsErr(sp.e) THEN Fail(m, Err("syntax", CurLine(m), CurRes(m), "", sp.e.why))
               ELSE LET cb  == IF sp.taken = <<>> THEN [e |-> NoErr, bag |-> NoBag]
                               ELSE CookBag(m.vocab[tn].keytype, sp.taken, 1,
                                            [on |-> TRUE, keys |-> <<>>, sects |-> <<>>])
                    IN  IF IsErr(cb.e) THEN Fail(m, cb.e)
                        ELSE LET d    == Len(m.ms)
                                 par  == IF sp.taken = <<>> THEN m.ms[d]
                                         ELSE [m.ms[d] EXCEPT !.bag.sects = sp.kept]
                                 m1   == [m EXCEPT !.ms = Append([m.ms EXCEPT ![d] = par],
                                                                 [nm0 EXCEPT !.bag = cb.bag])]
                             IN  IF c.empty THEN CloseTop(S, m1, TRUE)
                                 ELSE [m1 EXCEPT !.ps[Len(m.ps)].secs = Append(@, <<tn, name>>)]

(* end_section *)
StepClose(S, m, c) ==
  LET f == CurFrame(m) IN
  IF f.secs = <<>> THEN Fail(m, Err("syntax", CurLine(m), CurRes(m), "", "unexpected section end"))
  ELSE IF f.secs[Len(f.secs)][1] # Str(c.type)
       THEN Fail(m, Err("syntax", CurLine(m), CurRes(m), "", "unbalanced section end"))
  ELSE LET m1 == CloseTop(S, m, TRUE)
       IN  IF IsErr(m1.out) THEN m1
           ELSE [m1 EXCEPT !.ps[Len(m.ps)].secs = Sub(@, 1, Len(@) - 1)]

(* %define: split at the first white space run, lower-case the name.       *)
DefineParts(arg) ==
  LET n == (CHOOSE k \in 0..Len(arg) : (\A i \in 1..k : ~IsSpace(arg[i])) /\ (k = Len(arg) \/ IsSpace(arg[k + 1])))
      w == SpaceRun(arg, n + 1)
  IN  [name |-> LowerSeq(Sub(arg, 1, n)), value |-> From(arg, n + 1 + w)]

(* A name can be defined again only with the same expanded value.          *)
StepDefine(S, m, c) ==
  LET p   == DefineParts(c.arg)
      nm  == Str(p.name)
      old == TabLookup(m.defs, nm)
      x   == Expand(m, p.value)
  IN  IF old.has
      THEN (IF x.r # "ok" THEN Fail(m, SubstErr(m, x))
            ELSE IF old.v # x.v THEN Fail(m, Err("syntax", CurLine(m), CurRes(m), "", "cannot redefine"))
            ELSE m)
      ELSE IF ~IsName(p.name) THEN Fail(m, Err("syntax", CurLine(m), CurRes(m), "", "not a substitution legal name"))
      ELSE IF x.r # "ok" THEN Fail(m, SubstErr(m, x))
      ELSE [m EXCEPT !.defs = Append(m.defs, <<nm, TRUE, x.v>>)]

StepInclude(S, m, c) ==
  LET x == Expand(m, c.arg) IN
  IF x.r # "ok" THEN Fail(m, SubstErr(m, x))
  ELSE LET rid == Resolve(CurRes(m), x.v) IN
       IF rid = "" THEN Fail(m, Err("config", 0, "", "", "error opening"))
       ELSE IF \E i \in 1..Len(m.ps) : m.ps[i].rid = rid
            THEN Fail([m EXCEPT !.ps = Append(@, Frame(rid)), !.ev = Append(@, <<"open", rid>>)],
                      Err("config", 0, "", "", "recursive include"))     \* a resource that (transitively) includes itself
       ELSE [m EXCEPT !.ps = Append(@, Frame(rid)), !.ev = Append(@, <<"open", rid>>)]

(* ConfigLoader.importSchemaComponent + the component parser: a component  *)
(* is registered before it is read, so asking for it again - also from     *)
(* inside a component it imports itself - does nothing; the components it  *)
(* imports are read first, then its own types are merged.  The component   *)
(* resource is open while all that happens and closed whatever comes of it.*)
(* A refusal inside the component(s) being read: the load is over, the     *)
(* component resources are closed innermost first on the way out           *)
(* (ImportPkg), the configuration resources after them (StepImport).       *)
Refuse(m, e) == [m EXCEPT !.out = e]
RECURSIVE ImportPkg(_, _)
RECURSIVE ImportSeq(_, _, _)
ImportSeq(m, names, i) == IF i > Len(names) \/ m.out.r # "run" THEN m
                          ELSE ImportSeq(ImportPkg(m, names[i]), names, i + 1)
ImportPkg(m, name) ==
  LET p == Package(name) IN
  IF ~p.ok THEN Refuse(m, Err("config", 0, "", "", "cannot import"))
  ELSE IF name \in m.comps THEN m
  ELSE LET m1 == [m EXCEPT !.comps = @ \cup {name}, !.ev = Append(@, <<"open", "pkg:" \o name>>)]
           m2 == ImportSeq(m1, p.imports, 1)
           Closed(x) == [x EXCEPT !.ev = Append(@, <<"close", "pkg:" \o name>>)]
       IN  IF m2.out.r # "run" THEN Closed(m2)
           ELSE IF \E a \in DOMAIN p.impl \ {"~none~"} : a \notin DOMAIN m2.vocab \/ ~m2.vocab[a].abstract
                THEN Closed(Refuse(m2, Err("config", 0, "", "", "implements names no abstract type of this schema")))
           ELSE IF \E n \in DOMAIN p.types : n \in DOMAIN m2.vocab
                THEN Closed(Refuse(m2, Err("config", 0, "", "", "type name cannot be redefined")))
           ELSE LET merged == [n \in DOMAIN m2.vocab \cup DOMAIN p.types |->
                                 IF n \in DOMAIN p.types THEN p.types[n]
                                 ELSE IF m2.vocab[n].abstract /\ n \in DOMAIN p.impl
                                      THEN [m2.vocab[n] EXCEPT !.impl = @ \cup p.impl[n]]
                                      ELSE m2.vocab[n]]
                IN  Closed([m2 EXCEPT !.vocab = merged])

StepImport(S, m, c) ==
  LET x == Expand(m, c.arg) IN
  IF x.r # "ok" THEN Fail(m, SubstErr(m, x))
  ELSE LET r == ImportPkg(m, x.v) IN
       IF r.out.r = "err"
       THEN [r EXCEPT !.ev = @ \o [i \in 1..Len(m.ps) |-> <<"close", m.ps[Len(m.ps) + 1 - i].rid>>]]
       ELSE r

(* One classified line of the current resource.                            *)
StepClass(S, m0, c) ==
  LET m == [m0 EXCEPT !.ps[Len(m0.ps)].n = @ + 1] IN
  CASE c.k = "skip"  -> m
    [] c.k = "bad"   -> Fail(m, Err("syntax", CurLine(m), CurRes(m), "", c.why))
    [] c.k = "kv"    -> StepKV(S, m, c)
    [] c.k = "open"  -> StepOpen(S, m, c)
    [] c.k = "close" -> StepClose(S, m, c)
    [] c.k = "dir"   -> (IF c.name = "define" THEN StepDefine(S, m, c)
                         ELSE IF c.name = "include" THEN StepInclude(S, m, c)
                         ELSE StepImport(S, m, c))

(* End of the current resource: the parser's own stack must be empty; an   *)
(* included resource is closed and its includer continues; at the end of   *)
(* the top resource the schema matcher is finished.                        *)
StepEnd(S, m) ==
  LET f == CurFrame(m) IN
  IF f.secs # <<>> THEN Fail(m, Err("syntax", f.n, f.rid, "", "unclosed sections not allowed"))
  ELSE IF Len(m.ps) > 1
       THEN [m EXCEPT !.ps = Sub(@, 1, Len(@) - 1), !.ev = Append(@, <<"close", f.rid>>)]
  ELSE LET fin == FinishMatcher(m, S.top, m.ms[1]) IN
       IF IsErr(fin.e) THEN Fail(m, fin.e)
       ELSE LET dv == SecConvOf(S.top.datatype, fin.sv)
                hl == IF S.top.handler = "" THEN fin.hl ELSE Append(fin.hl, <<S.top.handler, [t |-> "sec", v |-> dv.v]>>)
            IN  [m EXCEPT !.out = [r |-> "ok", tree |-> dv.v, hl |-> hl],
                          !.hl = hl, !.ev = Append(@, <<"close", f.rid>>)]

IsRunning(m) == m.out.r = "run"
AtEnd(m)   == CurFrame(m).n >= Len(ResLines(CurFrame(m).rid))
NextLineOf(m) == ResLines(CurFrame(m).rid)[CurFrame(m).n + 1]

Step(S, m) == IF AtEnd(m) THEN StepEnd(S, m) ELSE StepClass(S, m, Classify(NextLineOf(m)))

(* Big step: run to the end (used for relational properties).              *)
RECURSIVE RunFrom(_, _)
RunFrom(S, m) == IF ~IsRunning(m) THEN m ELSE RunFrom(S, Step(S, m))
Load(S, rid, opts) == RunFrom(S, LoadStart(S, rid, opts))
=========================================================================
