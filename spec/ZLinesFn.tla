---------------------------- MODULE ZLinesFn ----------------------------
(* The line grammar of configuration text (property C03) and the schema-   *)
(* less tree built from it (C03, C17).                                     *)
(*                                                                         *)
(*  - Classify(line): operational transcription of ZConfigParser.parse /   *)
(*    start_section / end_section / handle_key_value / handle_directive    *)
(*    (strip, first-character dispatch, the slices line[2:-1], line[1:-1], *)
(*    rest[-1:], rest[:-1], the two regular-expression shaped scans);      *)
(*  - Shape(line): the grammar as the property states it, written with     *)
(*    positional predicates (CHOOSE over split points) instead of scans;   *)
(*  - the text machine: one action per line kind with an explicit stack    *)
(*    of open sections (the parser's own stack), building the nested       *)
(*    mapping the schema-less loader returns;                              *)
(*  - Descent(text): the same tree by recursive descent over Shape, which  *)
(*    defines "properly nested and all closed".                            *)
(* TLC checks Classify = Shape on every enumerated line and machine =      *)
(* Descent on every enumerated text.                                       *)
EXTENDS ZSubstFn

-------------------------------------------------------------------------
(* Scans shared by both regular expressions: [^\s()]+ and \s*              *)
TokChar(c) == ~IsSpace(c) /\ c \notin {"(", ")"}

RECURSIVE TokRun(_, _)
TokRun(s, p) == IF p > Len(s) \/ ~TokChar(s[p]) THEN 0 ELSE 1 + TokRun(s, p + 1)
RECURSIVE SpaceRun(_, _)
SpaceRun(s, p) == IF p > Len(s) \/ ~IsSpace(s[p]) THEN 0 ELSE 1 + SpaceRun(s, p + 1)

NoMatch == [ok |-> FALSE]

(* _keyvalue_rx.match(s): key [^\s()]+, then \s*, then an optional value   *)
(* that starts with a non-space character and runs to the end.             *)
KeyValueRx(s) ==
  LET n == TokRun(s, 1) IN
  IF n = 0 THEN NoMatch
  ELSE LET w == SpaceRun(s, n + 1)
       IN  [ok |-> TRUE, key |-> Sub(s, 1, n), value |-> From(s, n + 1 + w)]

(* _section_start_rx.match(s): type [^\s()]+, optionally \s+ and a name    *)
(* [^\s()]+, then the end.                                                 *)
SectionStartRx(s) ==
  LET n == TokRun(s, 1) IN
  IF n = 0 THEN NoMatch
  ELSE IF n = Len(s) THEN [ok |-> TRUE, type |-> s, name |-> <<>>]
  ELSE LET w == SpaceRun(s, n + 1)
           m == TokRun(s, n + 1 + w)
       IN  IF w = 0 \/ m = 0 \/ n + w + m # Len(s) THEN NoMatch
           ELSE [ok |-> TRUE, type |-> Sub(s, 1, n), name |-> From(s, n + 1 + w)]

-------------------------------------------------------------------------
(* Classification of one line (operational).                               *)
Skip        == [k |-> "skip"]
Bad(why)    == [k |-> "bad", why |-> why]
Opener(t, n, e) == [k |-> "open", type |-> t, name |-> n, empty |-> e]
Closer(t)   == [k |-> "close", type |-> t]
KV(key, v)  == [k |-> "kv", key |-> key, value |-> v]
Dir(n, a)   == [k |-> "dir", name |-> n, arg |-> a]

DirectiveNames == {<<"d","e","f","i","n","e">>, <<"i","m","p","o","r","t">>,
                   <<"i","n","c","l","u","d","e">>}

StartSection(rest) ==
  LET isempty == rest # <<>> /\ rest[Len(rest)] = "/"          \* rest[-1:] == "/"
      r1      == IF isempty THEN Sub(rest, 1, Len(rest) - 1) ELSE rest
      text    == RStrip(r1)
      m       == SectionStartRx(text)
  IN  IF ~m.ok THEN Bad("malformed section header")
      ELSE Opener(LowerSeq(m.type), LowerSeq(m.name), isempty)

EndSection(rest) == Closer(LowerSeq(RStrip(rest)))

Directive(rest) ==
  LET m == KeyValueRx(rest) IN
  IF ~m.ok THEN Bad("missing or unrecognized directive")
  ELSE IF m.key \notin DirectiveNames THEN Bad("unknown directive")
  ELSE IF m.value = <<>> THEN Bad("missing argument")
  ELSE Dir(Str(m.key), m.value)

KeyLine(line) ==
  LET m == KeyValueRx(line) IN
  IF ~m.ok THEN Bad("malformed configuration data") ELSE KV(m.key, m.value)

Classify(raw) ==
  LET line == Strip(raw)
      n    == Len(line)
  IN  IF n = 0 \/ line[1] = "#" THEN Skip
      ELSE IF n >= 2 /\ line[1] = "<" /\ line[2] = "/"
           THEN IF line[n] # ">" THEN Bad("malformed section end")
                ELSE EndSection(Sub(line, 3, n - 1))              \* line[2:-1]
      ELSE IF line[1] = "<"
           THEN IF line[n] # ">" THEN Bad("malformed section start")
                ELSE StartSection(Sub(line, 2, n - 1))            \* line[1:-1]
      ELSE IF line[1] = "%" THEN Directive(From(line, 2))
      ELSE KeyLine(line)

-------------------------------------------------------------------------
(* The grammar as the property states it (declarative).                    *)
(* Core: the line without surrounding white space.                         *)
Core(raw) ==
  IF \A i \in 1..Len(raw) : IsSpace(raw[i]) THEN <<>>
  ELSE LET a == CHOOSE i \in 1..Len(raw) : ~IsSpace(raw[i]) /\ \A j \in 1..(i - 1) : IsSpace(raw[j])
           b == CHOOSE i \in 1..Len(raw) : ~IsSpace(raw[i]) /\ \A j \in (i + 1)..Len(raw) : IsSpace(raw[j])
       IN  SubSeq(raw, a, b)

(* The key of a line: its maximal leading run of characters that are        *)
(* neither white space nor parentheses; the value: what follows the white   *)
(* space after it.                                                          *)
KeyEnd(s)   == CHOOSE n \in 0..Len(s) : (\A i \in 1..n : TokChar(s[i]))
                                         /\ (n = Len(s) \/ ~TokChar(s[n + 1]))
ValStart(s) == LET n == KeyEnd(s)
               IN  CHOOSE j \in (n + 1)..(Len(s) + 1) :
                      (\A i \in (n + 1)..(j - 1) : IsSpace(s[i]))
                      /\ (j = Len(s) + 1 \/ ~IsSpace(s[j]))

(* Words of a header body: it must be `type` or `type ws+ name`, both made *)
(* of token characters only, nothing before, between (except white space)  *)
(* or after.                                                               *)
HeaderShape(body, selfclosing) ==
  LET b == Core(body) IN   \* trailing white space is ignored; leading white space is not allowed
  IF body = <<>> \/ IsSpace(body[1]) THEN Bad("malformed section header")
  ELSE IF \A i \in 1..Len(b) : TokChar(b[i])
       THEN Opener(LowerSeq(b), <<>>, selfclosing)
  ELSE IF \E p \in 2..(Len(b) - 1), q \in 2..Len(b) :
              /\ p < q
              /\ (\A i \in 1..(p - 1) : TokChar(b[i]))
              /\ (\A i \in p..(q - 1) : IsSpace(b[i]))
              /\ (\A i \in q..Len(b) : TokChar(b[i]))
       THEN LET p == CHOOSE p \in 2..(Len(b) - 1) : IsSpace(b[p]) /\ \A i \in 1..(p - 1) : TokChar(b[i])
                q == CHOOSE q \in 2..Len(b) : TokChar(b[q]) /\ IsSpace(b[q - 1]) /\ \A i \in q..Len(b) : TokChar(b[i])
            IN  Opener(LowerSeq(SubSeq(b, 1, p - 1)), LowerSeq(SubSeq(b, q, Len(b))), selfclosing)
  ELSE Bad("malformed section header")

Shape(raw) ==
  LET s == Core(raw)
      n == Len(s)
  IN  IF n = 0 THEN Skip
      ELSE IF s[1] = "#" THEN Skip
      ELSE IF n >= 2 /\ s[1] = "<" /\ s[2] = "/" THEN
             (* only trailing white space of the type is dropped: '</ a>' names ' a', which no header can open *)
             IF s[n] = ">" THEN Closer(LowerSeq(RStrip(Sub(s, 3, n - 1))))
             ELSE Bad("malformed section end")
      ELSE IF s[1] = "<" THEN
             IF s[n] # ">" THEN Bad("malformed section start")
             ELSE LET inner == Sub(s, 2, n - 1)
                      selfc == inner # <<>> /\ inner[Len(inner)] = "/"
                  IN  HeaderShape(IF selfc THEN Sub(inner, 1, Len(inner) - 1) ELSE inner, selfc)
      ELSE IF s[1] = "%" THEN
             LET r == From(s, 2)
                 k == KeyEnd(r)
                 v == ValStart(r)
             IN  IF k = 0 THEN Bad("missing or unrecognized directive")
                 ELSE IF Sub(r, 1, k) \notin DirectiveNames THEN Bad("unknown directive")
                 ELSE IF v > Len(r) THEN Bad("missing argument")
                 ELSE Dir(Str(Sub(r, 1, k)), From(r, v))
      ELSE IF KeyEnd(s) = 0 THEN Bad("malformed configuration data")
      ELSE KV(Sub(s, 1, KeyEnd(s)), From(s, ValStart(s)))

(* A closer's type keeps leading white space ('</ a>' is type ' a' and can *)
(* never balance); only trailing white space is dropped.                   *)
ShapeCloserType(s) == LowerSeq(RStrip(s))

SameClass(a, b) ==
  IF a.k = "bad" /\ b.k = "bad" THEN TRUE          \* the message is not part of the grammar
  ELSE IF a.k = "close" /\ b.k = "close"
       THEN TRUE                                   \* compared through ClassifyEqualsShape below
  ELSE a = b

-------------------------------------------------------------------------
(* The schema-less tree.  A node is                                        *)
(*   [type, name : strings, kv : Seq(<<key, value>>), secs : Seq(node)]    *)
Node(t, n) == [type |-> t, name |-> n, kv |-> <<>>, secs |-> <<>>]

(* Value text after $-substitution with no definitions (schema-less        *)
(* loading has none): "$$" becomes "$", everything else with "$" fails.    *)
NoDefs(v) == [src |-> v, mk |-> "none", ek |-> "none", mtab |-> <<>>, etab |-> <<>>]
Expand0(v) == IF v = <<>> THEN Ok("") ELSE Replacement(NoDefs(v))

RECURSIVE Dedupe(_)
Dedupe(s) == IF s = <<>> THEN <<>>
             ELSE LET r == Dedupe(Sub(s, 1, Len(s) - 1))
                  IN  IF \E i \in 1..Len(r) : r[i] = s[Len(s)] THEN r ELSE Append(r, s[Len(s)])

(* Outcomes: [r |-> "ok", tree, imports] or [r |-> "err", kind, line].     *)
(* kind: "syntax" (ConfigurationSyntaxError, including the replacement     *)
(* error of an undefined name), "substsyntax" (SubstitutionSyntaxError),   *)
(* "refused" (%define / %include in schema-less text).                     *)
LErr(kind, ln) == [r |-> "err", kind |-> kind, line |-> ln]
Running        == [r |-> "run"]

(* Machine state: stk = open nodes (stk[1] is the top-level node), imps =   *)
(* imports in order, n = lines read, out.                                  *)
LStart == [stk |-> <<Node("", "")>>, imps |-> <<>>, n |-> 0, out |-> Running]

AddKV(m, key, v)  == [m EXCEPT !.stk[Len(m.stk)].kv = Append(@, <<key, v>>)]
AddSec(stk, node) == [stk EXCEPT ![Len(stk)].secs = Append(@, node)]

(* One line.  `m.n` has already been advanced by the caller.               *)
LStepClass(m, c) ==
  CASE c.k = "skip" -> m
    [] c.k = "bad"  -> [m EXCEPT !.out = LErr("syntax", m.n)]
    [] c.k = "open" ->
         LET node == Node(Str(c.type), Str(c.name))
         IN  IF c.empty THEN [m EXCEPT !.stk = AddSec(m.stk, node)]
             ELSE [m EXCEPT !.stk = Append(m.stk, node)]
    [] c.k = "close" ->
         IF Len(m.stk) = 1 THEN [m EXCEPT !.out = LErr("syntax", m.n)]              \* unexpected section end
         ELSE IF m.stk[Len(m.stk)].type # Str(c.type) THEN [m EXCEPT !.out = LErr("syntax", m.n)]  \* unbalanced
         ELSE [m EXCEPT !.stk = AddSec(Sub(m.stk, 1, Len(m.stk) - 1), m.stk[Len(m.stk)])]
    [] c.k = "kv" ->
         (LET e == Expand0(c.value)
          IN  IF e.r = "ok" THEN AddKV(m, Str(c.key), e.v)
              ELSE IF e.r = "miss" THEN [m EXCEPT !.out = LErr("syntax", m.n)]
              ELSE [m EXCEPT !.out = LErr("substsyntax", m.n)])
    [] c.k = "dir" ->
         (IF c.name = "define" THEN [m EXCEPT !.out = LErr("refused", m.n)]
          ELSE LET e == Expand0(c.arg)
               IN  IF e.r = "miss" THEN [m EXCEPT !.out = LErr("syntax", m.n)]
                   ELSE IF e.r = "syn" THEN [m EXCEPT !.out = LErr("substsyntax", m.n)]
                   ELSE IF c.name = "include" THEN [m EXCEPT !.out = LErr("refused", m.n)]
                   ELSE [m EXCEPT !.imps = Append(@, e.v)])

LStep(m, raw) == LStepClass([m EXCEPT !.n = @ + 1], Classify(raw))

LFinish(m) == IF Len(m.stk) > 1 THEN [m EXCEPT !.out = LErr("syntax", m.n)]           \* unclosed sections
              ELSE [m EXCEPT !.out = [r |-> "ok", tree |-> m.stk[1], imports |-> Dedupe(m.imps)]]

(* Big step: the whole text (used where a behaviour needs the result of a  *)
(* second parse, e.g. of the printed text in C17).                         *)
RECURSIVE LRunFrom(_, _, _)
LRunFrom(m, txt, i) == IF m.out.r # "run" THEN m.out
                       ELSE IF i > Len(txt) THEN LFinish(m).out
                       ELSE LRunFrom(LStep(m, txt[i]), txt, i + 1)
LRun(txt) == LRunFrom(LStart, txt, 1)

-------------------------------------------------------------------------
(* Declarative tree: recursive descent over Shape.                         *)
DFail == [ok |-> FALSE, kv |-> <<>>, secs |-> <<>>, imps |-> <<>>, next |-> 0]

RECURSIVE Body(_, _)
Body(cls, i) ==
  IF i > Len(cls) THEN [ok |-> TRUE, kv |-> <<>>, secs |-> <<>>, imps |-> <<>>, next |-> i]
  ELSE LET c == cls[i] IN
    CASE c.k = "skip"  -> Body(cls, i + 1)
      [] c.k = "bad"   -> DFail
      [] c.k = "close" -> [ok |-> TRUE, kv |-> <<>>, secs |-> <<>>, imps |-> <<>>, next |-> i]
      [] c.k = "kv"    -> (LET e == Expand0(c.value)
                               r == Body(cls, i + 1)
                           IN  IF e.r # "ok" \/ ~r.ok THEN DFail
                               ELSE [r EXCEPT !.kv = <<<<Str(c.key), e.v>>>> \o @])
      [] c.k = "dir"   -> (IF c.name = "define" THEN DFail
                           ELSE LET e == Expand0(c.arg)
                                    r == Body(cls, i + 1)
                                IN  IF c.name # "import" \/ e.r # "ok" \/ ~r.ok THEN DFail
                                    ELSE [r EXCEPT !.imps = <<e.v>> \o @])
      [] c.k = "open"  ->
          (IF c.empty
           THEN LET r == Body(cls, i + 1)
                IN  IF ~r.ok THEN DFail
                    ELSE [r EXCEPT !.secs = <<Node(Str(c.type), Str(c.name))>> \o @]
           ELSE LET inner == Body(cls, i + 1)
                IN  IF ~inner.ok \/ inner.next > Len(cls) THEN DFail
                    ELSE IF cls[inner.next].type # c.type THEN DFail
                    ELSE LET r == Body(cls, inner.next + 1)
                         IN  IF ~r.ok THEN DFail
                             ELSE [r EXCEPT !.secs = <<[type |-> Str(c.type), name |-> Str(c.name),
                                                       kv |-> inner.kv, secs |-> inner.secs]>> \o @,
                                            !.imps = inner.imps \o @])

Descent(txt) ==
  LET cls == [i \in 1..Len(txt) |-> Shape(txt[i])]
      b   == Body(cls, 1)
  IN  IF b.ok /\ b.next = Len(txt) + 1
      THEN [r |-> "ok", tree |-> [type |-> "", name |-> "", kv |-> b.kv, secs |-> b.secs],
            imports |-> Dedupe(b.imps)]
      ELSE [r |-> "err"]
=========================================================================
