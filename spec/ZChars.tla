----------------------------- MODULE ZChars -----------------------------
(* Characters are one-character strings, texts are sequences of them.      *)
(* TLC strings are atomic (no indexing) but support \o, so a sequence of   *)
(* characters can be turned into a string (Str) and never the other way;   *)
(* every scanner in these specifications therefore works on sequences.     *)
(*                                                                         *)
(* ASCII classification is defined here.  What Python's str.lower() and    *)
(* str.isspace() do to non-ASCII characters is environment: the harness    *)
(* passes a table for the characters that occur (ExtLower, ExtSpace),      *)
(* computed by calling those methods directly, never through ZConfig.      *)
EXTENDS Naturals, Sequences

LowerLetters == {"a","b","c","d","e","f","g","h","i","j","k","l","m",
                 "n","o","p","q","r","s","t","u","v","w","x","y","z"}
UpperLetters == {"A","B","C","D","E","F","G","H","I","J","K","L","M",
                 "N","O","P","Q","R","S","T","U","V","W","X","Y","Z"}
Letters      == LowerLetters \cup UpperLetters
Digits       == {"0","1","2","3","4","5","6","7","8","9"}
HexLetters   == {"a","b","c","d","e","f","A","B","C","D","E","F"}

UpperToLower == [A |-> "a", B |-> "b", C |-> "c", D |-> "d", E |-> "e",
                 F |-> "f", G |-> "g", H |-> "h", I |-> "i", J |-> "j",
                 K |-> "k", L |-> "l", M |-> "m", N |-> "n", O |-> "o",
                 P |-> "p", Q |-> "q", R |-> "r", S |-> "s", T |-> "t",
                 U |-> "u", V |-> "v", W |-> "w", X |-> "x", Y |-> "y",
                 Z |-> "z"]

(* Environment tables for non-ASCII characters; overridden (cfg            *)
(* "CONSTANT ExtLower <- ...") by trace specifications.                    *)
ExtLower == [c \in {} |-> c]
ExtSpace == {}

(* ASCII white space as str.strip()/\s see it, plus the file/group/record/ *)
(* unit separators that str.isspace() also accepts are never generated.    *)
AsciiSpace == {" ", "\t", "\n", "\r", "\f"}

IsSpace(c) == c \in AsciiSpace \/ c \in ExtSpace

LowerChar(c) == IF c \in DOMAIN UpperToLower THEN UpperToLower[c]
                ELSE IF c \in DOMAIN ExtLower THEN ExtLower[c]
                ELSE c

LowerSeq(s) == [i \in 1..Len(s) |-> LowerChar(s[i])]

RECURSIVE Str(_)
Str(cs) == IF cs = <<>> THEN "" ELSE Head(cs) \o Str(Tail(cs))

(* Sub-sequence from..to (1-based, inclusive), empty when from > to.       *)
Sub(s, a, b) == IF a > b THEN <<>> ELSE SubSeq(s, a, b)
From(s, a)   == Sub(s, a, Len(s))

(* Position of the first element of s satisfying a membership test, 0 if   *)
(* there is none.                                                          *)
RECURSIVE FirstIn(_, _, _)
FirstIn(s, set, p) == IF p > Len(s) THEN 0
                      ELSE IF s[p] \in set THEN p ELSE FirstIn(s, set, p + 1)
IndexOf(s, c) == FirstIn(s, {c}, 1)
Has(s, c)     == IndexOf(s, c) # 0

(* All sequences over alphabet A of length <= n.                           *)
RECURSIVE SeqsUpTo(_, _)
SeqsUpTo(A, n) == IF n = 0 THEN {<<>>}
                  ELSE LET S == SeqsUpTo(A, n - 1)
                       IN  S \cup {Append(s, a) : s \in {t \in S : Len(t) = n - 1}, a \in A}

(* Python's s.strip(): remove leading and trailing white space.            *)
RECURSIVE LStrip(_)
LStrip(s) == IF s # <<>> /\ IsSpace(Head(s)) THEN LStrip(Tail(s)) ELSE s
RECURSIVE RStrip(_)
RStrip(s) == IF s # <<>> /\ IsSpace(s[Len(s)]) THEN RStrip(Sub(s, 1, Len(s) - 1)) ELSE s
Strip(s)  == RStrip(LStrip(s))
=========================================================================
