---------------------------- MODULE ZLoggerLife ----------------------------
(* The logger component (property C20), part (b) - the life cycle: logger  *)
(* factories and handler factories memoise their product, loggers are      *)
(* shared by name (logging.getLogger), file handlers register a weak       *)
(* reference in the reopen registry; actions CallFactory, Reopen, CloseAll,*)
(* DropRef, CloseOne.                                                      *)
EXTENDS ZLogger

(* A configuration is a sequence of logger sections                        *)
(*   [kind : "eventlog" | "logger", name, level, prop, hs : Seq([cls, level, delay])]                            *)
(* cls in {"stream", "file", "rot", "timed"} for <logfile> sections, and   *)
(* "syslog", "http", "smtp" for <syslog>, <http-logger>, <email-notifier>: *)
(* handlers without a file, which the reopen registry never sees.          *)
CONSTANTS Configs, MaxOps

FileLike == {"file", "rot", "timed"}

VARIABLES cfg,      \* the configuration of this behaviour
          made,     \* logger factories that have been called: index -> TRUE
          loggers,  \* logger name -> [level, prop, hs : Seq(handler id)]   (the logging module's registry)
          H,        \* handler id -> [cls, level, delay, open, alive, shut, sec]
          reg,      \* the reopen registry: handler ids in registration order
          hist      \* <<op, observable>> pairs so far
lvars == <<cfg, made, loggers, H, reg, hist>>

SeqToSet(s) == {s[i] : i \in DOMAIN s}
RemoveAll(s, x) == SelectSeq(s, LAMBDA y : y # x)

Observable == [loggers |-> loggers,
               handlers |-> [h \in DOMAIN H |-> [cls |-> H[h].cls, level |-> H[h].level, open |-> H[h].open,
                                                 alive |-> H[h].alive]],
               reg |-> reg]

Init == /\ cfg \in Configs
        /\ made = {} /\ loggers = <<>> /\ H = <<>> /\ reg = <<>> /\ hist = <<>>

Record(op) == hist' = Append(hist, [op |-> op, obs |-> Observable'])

(* handlers created when logger factory f is called for the first time    *)
NewHandlers(f) ==
  LET hs == cfg[f].hs IN
  IF hs = <<>> THEN <<[cls |-> "null", level |-> 0, delay |-> FALSE, open |-> FALSE, alive |-> TRUE, shut |-> FALSE,
                       sec |-> <<f, 0>>]>>
  ELSE [j \in DOMAIN hs |-> [cls |-> hs[j].cls, level |-> hs[j].level, delay |-> hs[j].delay,
                             open |-> (hs[j].cls = "stream" \/ (hs[j].cls \in FileLike /\ ~hs[j].delay)),
                             alive |-> TRUE, shut |-> FALSE, sec |-> <<f, j>>]]

CallFactory(f) ==
  /\ f \in DOMAIN cfg /\ Len(hist) < MaxOps
  /\ IF f \in made
     THEN UNCHANGED <<made, loggers, H, reg>>                     \* memoised: the same logger, nothing added
     ELSE LET nh  == NewHandlers(f)
              ids == [j \in DOMAIN nh |-> Len(H) + j]
              nm  == cfg[f].name
              old == IF nm \in DOMAIN loggers THEN loggers[nm] ELSE [level |-> 0, prop |-> TRUE, hs |-> <<>>]
              new == [level |-> cfg[f].level,
                      prop |-> IF cfg[f].kind = "logger" THEN cfg[f].prop ELSE old.prop,
                      hs |-> old.hs \o ids]
          IN /\ made' = made \cup {f}
             /\ H' = H \o nh
             /\ loggers' = (nm :> new) @@ loggers
             /\ reg' = reg \o SelectSeq(ids, LAMBDA h : nh[h - Len(H)].cls \in FileLike)
  /\ Record([o |-> "call", f |-> f, h |-> 0])
  /\ UNCHANGED cfg

(* loghandler.reopenFiles: every handler still registered is reopened      *)
ReopenOne(h) == IF h.cls = "file" THEN [h EXCEPT !.open = (h.open /\ ~h.delay)]
                ELSE [h EXCEPT !.open = ~h.delay]
Reopen ==
  /\ Len(hist) < MaxOps
  /\ H' = [h \in DOMAIN H |-> IF h \in SeqToSet(reg) /\ H[h].alive THEN ReopenOne(H[h]) ELSE H[h]]
  /\ reg' = SelectSeq(reg, LAMBDA h : H[h].alive)
  /\ UNCHANGED <<cfg, made, loggers>>
  /\ Record([o |-> "reopen", f |-> 0, h |-> 0])

(* loghandler.closeFiles: every registered handler is closed, the registry is emptied *)
CloseAll ==
  /\ Len(hist) < MaxOps
  /\ H' = [h \in DOMAIN H |-> IF h \in SeqToSet(reg) /\ H[h].alive
                               THEN [H[h] EXCEPT !.open = FALSE, !.shut = TRUE] ELSE H[h]]
  /\ reg' = <<>>
  /\ UNCHANGED <<cfg, made, loggers>>
  /\ Record([o |-> "closeall", f |-> 0, h |-> 0])

(* the application removes a handler from its logger and drops every reference to it *)
DropRef(h) ==
  /\ Len(hist) < MaxOps
  /\ h \in DOMAIN H /\ H[h].alive
  /\ H' = [H EXCEPT ![h].alive = FALSE, ![h].open = FALSE]
  /\ loggers' = [n \in DOMAIN loggers |-> [loggers[n] EXCEPT !.hs = RemoveAll(@, h)]]
  /\ reg' = RemoveAll(reg, h)
  /\ UNCHANGED <<cfg, made>>
  /\ Record([o |-> "drop", f |-> 0, h |-> h])

(* the application closes one file handler itself (handler.close()) while  *)
(* its logger still holds it: the handler leaves the registry there and    *)
(* then, so a later reopen does not bring it back                          *)
CloseOne(h) ==
  /\ Len(hist) < MaxOps
  /\ h \in DOMAIN H /\ H[h].alive /\ H[h].cls \in FileLike /\ ~H[h].shut
  /\ H' = [H EXCEPT ![h].open = FALSE, ![h].shut = TRUE]
  /\ reg' = RemoveAll(reg, h)
  /\ UNCHANGED <<cfg, made, loggers>>
  /\ Record([o |-> "closeone", f |-> 0, h |-> h])

Next == (\E f \in DOMAIN cfg : CallFactory(f)) \/ Reopen \/ CloseAll \/ (\E h \in DOMAIN H : DropRef(h))
        \/ (\E h \in DOMAIN H : CloseOne(h))
LSpec == Init /\ [][Next]_lvars

(* invariants *)
RegistryIsLiveFileHandlers ==
  /\ \A i, j \in DOMAIN reg : i # j => reg[i] # reg[j]
  /\ SeqToSet(reg) = {h \in DOMAIN H : H[h].alive /\ H[h].cls \in FileLike /\ ~H[h].shut}
OneHandlerPerSection ==
  \A f \in made :
     LET mine == SelectSeq(loggers[cfg[f].name].hs, LAMBDA h : H[h].sec[1] = f) IN
     \* the handlers of f that are still attached are in section order, and all of them unless dropped
     /\ \A i, j \in DOMAIN mine : i < j => H[mine[i]].sec[2] < H[mine[j]].sec[2]
     /\ \A h \in DOMAIN H : (H[h].sec[1] = f /\ H[h].alive) => h \in SeqToSet(mine)
LevelsAsConfigured ==
  \A h \in DOMAIN H : H[h].cls # "null" => H[h].level = cfg[H[h].sec[1]].hs[H[h].sec[2]].level
ClosedMeansShut == \A h \in DOMAIN H : (H[h].shut \/ ~H[h].alive) => ~H[h].open
(* action properties *)
FactoryIdempotent ==
  [][\A f \in DOMAIN cfg : (f \in made /\ made' = made /\ hist' # hist /\ hist'[Len(hist')].op.o = "call"
                             /\ hist'[Len(hist')].op.f = f) => (loggers' = loggers /\ H' = H /\ reg' = reg)]_lvars
ReopenActsOnRegisteredOnly ==
  [][(hist' # hist /\ hist'[Len(hist')].op.o \in {"reopen", "closeall"}) =>
        \A h \in DOMAIN H : h \notin SeqToSet(reg) => H'[h] = H[h]]_lvars
CloseAllEmptiesRegistry ==
  [][(hist' # hist /\ hist'[Len(hist')].op.o = "closeall") =>
        (reg' = <<>> /\ \A h \in DOMAIN H' : H'[h].cls \in FileLike /\ H[h].alive /\ h \in SeqToSet(reg) => ~H'[h].open)]_lvars

=========================================================================
