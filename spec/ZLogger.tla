------------------------------ MODULE ZLogger ------------------------------
(* The logger component (property C20).                                    *)
(*                                                                         *)
(* (a) configuration -> setup, as functions with an operational and a      *)
(*     declarative formulation:                                            *)
(*       LevelOf        datatypes.logging_level                            *)
(*       ChooseHandler  handlers.FileHandlerFactory.__init__ (branch order)*)
(*       HandlerTable   the documented table of option combinations        *)
(* (b) the life cycle: module ZLoggerLife.                                 *)
(* (c) formats: what may follow the acceptance of a format at load time    *)
(*     (Python's format mini-languages themselves are environment).        *)
EXTENDS Naturals, Integers, Sequences, FiniteSets, TLC

-------------------------------------------------------------------------
(* (a) levels.  A level text is abstracted by the harness to               *)
(* [k |-> "name", n |-> lower-cased text] | [k |-> "int", v |-> integer] | *)
(* [k |-> "junk"] (what int() and str.lower() do is Python's business).    *)
LevelNames == [critical |-> 50, fatal |-> 50, error |-> 40, warn |-> 30, warning |-> 30, info |-> 20,
               blather |-> 15, debug |-> 10, trace |-> 5, all |-> 1, notset |-> 0]
Refused == [ok |-> FALSE, v |-> 0]
Level(v) == [ok |-> TRUE, v |-> v]

(* operational: table lookup first, then the integer range test            *)
LevelOf(t) == IF t.k = "name" /\ t.n \in DOMAIN LevelNames THEN Level(LevelNames[t.n])
              ELSE IF t.k = "int" THEN (IF t.v < 0 \/ t.v > 50 THEN Refused ELSE Level(t.v))
              ELSE Refused
(* declarative: the documented numbers; integers exactly in 0..50          *)
LevelContract(t) ==
  LET r == LevelOf(t) IN
  /\ (t.k = "int") => (r.ok <=> t.v \in 0..50) /\ (r.ok => r.v = t.v)
  /\ (t.k = "name") => (r.ok <=> t.n \in {"critical", "fatal", "error", "warn", "warning", "info", "blather",
                                           "debug", "trace", "all", "notset"})
  /\ (t.k = "name" /\ r.ok) => r.v = CASE t.n \in {"critical", "fatal"} -> 50 [] t.n = "error" -> 40
                                        [] t.n \in {"warn", "warning"} -> 30 [] t.n = "info" -> 20
                                        [] t.n = "blather" -> 15 [] t.n = "debug" -> 10 [] t.n = "trace" -> 5
                                        [] t.n = "all" -> 1 [] t.n = "notset" -> 0
  /\ (t.k = "junk") => ~r.ok

-------------------------------------------------------------------------
(* (a) handler choice.  o = [path : "STDOUT" | "STDERR" | "file", max, old, interval : 0 | 1 (zero / positive), *)
(* when : "" | "D", enc : "" | "utf-8", delay : BOOLEAN].  Result: "stream-out", "stream-err", "file", "rot",    *)
(* "timed" or "refused".                                                   *)
StdRefuses(o) == o.max > 0 \/ o.old > 0 \/ o.when # "" \/ o.delay \/ o.enc # ""

ChooseHandler(o) ==
  IF o.path = "STDERR" THEN (IF StdRefuses(o) THEN "refused" ELSE "stream-err")
  ELSE IF o.path = "STDOUT" THEN (IF StdRefuses(o) THEN "refused" ELSE "stream-out")
  ELSE IF o.when # "" \/ o.max > 0 \/ o.old > 0 \/ o.interval > 0 THEN
       (IF o.old = 0 THEN "refused"
        ELSE IF o.when # "" THEN (IF o.max > 0 THEN "refused" ELSE "timed")
        ELSE IF o.max > 0 THEN "rot"
        ELSE "refused")
  ELSE "file"

(* the documented table *)
HandlerContract(o) ==
  LET r == ChooseHandler(o)
      std == o.path \in {"STDOUT", "STDERR"}
      wantsRotation == o.when # "" \/ o.max > 0 \/ o.old > 0 \/ o.interval > 0
  IN /\ std => (r = "refused" <=> (o.max > 0 \/ o.old > 0 \/ o.when # "" \/ o.delay \/ o.enc # ""))
     /\ (std /\ r # "refused") => r = (IF o.path = "STDOUT" THEN "stream-out" ELSE "stream-err")
     /\ (~std /\ ~wantsRotation) => r = "file"
     /\ (~std /\ wantsRotation) =>
          /\ (o.old = 0 => r = "refused")                           \* rotation of a file requires old-files
          /\ ((o.when # "" /\ o.max > 0) => r = "refused")          \* timed and size rotation exclude each other
          /\ ((o.when = "" /\ o.max = 0) => r = "refused")          \* old-files / interval alone do not say how
          /\ ((o.old > 0 /\ o.when # "" /\ o.max = 0) => r = "timed")
          /\ ((o.old > 0 /\ o.when = "" /\ o.max > 0) => r = "rot")

-------------------------------------------------------------------------
(* (c) formats.  A record of the life of one format string:                *)
(*   [arb : BOOLEAN, load : "ok" | "refused", build : "ok" | "raised" | "-", fmt : "ok" | "raised" | "-",       *)
(*    out, ref]  (out = what the formatter rendered, ref = what Python's own mini-language renders)             *)
FormatClause(r) ==
  IF r.load = "refused" THEN (IF r.build = "-" /\ r.fmt = "-" THEN "accepted" ELSE "refused-but-used")
  ELSE IF r.build # "ok" /\ ~r.arb THEN "accepted-at-load-but-formatter-cannot-be-built"
  ELSE IF r.build = "ok" /\ r.fmt # "ok" /\ ~r.arb THEN "accepted-at-load-but-formatting-raises"
  ELSE IF r.build = "ok" /\ r.fmt = "ok" /\ r.out # r.ref THEN "rendering-differs-from-configured-format"
  ELSE "accepted"
=========================================================================
