---------------------------- MODULE ZSchemaExpand ----------------------------
(* The written-out expansion of a schema document (property C11): one      *)
(* schema document that uses no composition feature -                      *)
(*   - no sectiontype/@extends: the base's keys and sections are written   *)
(*     out first, key type and datatype are explicit (inherited unless     *)
(*     overridden), keyed defaults of '+' items keep their spelling (so    *)
(*     that they are normalised under the new key type), 'implements' is   *)
(*     the type's own only;                                                *)
(*   - no prefix: every datatype name is written in full (a leading '.'    *)
(*     resolved against the nearest enclosing prefix);                     *)
(*   - no schema/@extends: base schemas merged (last-listed first), key    *)
(*     type and datatype explicit;                                         *)
(*   - no <import>: a component's types stand where its first import was.  *)
(* Built from the same flattened sequence the rules use.                   *)
EXTENDS ZSchemaRules

Node(tag, a, kids, text) == [tag |-> tag, a |-> a, kids |-> kids, text |-> text]
Restrict(a, ks) == [k \in (DOMAIN a \cap ks) |-> a[k]]

RECURSIVE EffDT(_, _)
EffDT(E, i) == IF Has(E[i].n.a, "datatype") THEN DtCanon(Cls(TPfx(E, i), E[i].n.a["datatype"]))
               ELSE IF HasBase(E, i) /\ ~IsAbsT(E, BaseIdx(E, i)) THEN EffDT(E, BaseIdx(E, i))
               ELSE "null"

ExpDefault(dn) == Node("default", Restrict(dn.a, {"key"}), <<>>, dn.text)

ExpItem(m, kt, pfx) ==
  LET nm  == INameOf(m)
      nn  == IF nm \in {"*", "+"} THEN nm ELSE KeyNorm(kt, nm)
      dtp == IF IsKeyTag(m) THEN ("datatype" :> DtRef(pfx, m.a, "datatype", "string")) ELSE <<>>
      typ == IF IsKeyTag(m) THEN <<>> ELSE ("type" :> LowerOf(m.a["type"]))
      ds  == Defaults(m)
  IN Node(m.tag,
          dtp @@ typ @@ ("name" :> nn) @@ Restrict(m.a, {"attribute", "required", "handler", "default"}),
          [k \in DOMAIN ds |-> ExpDefault(ds[k])], "")

RECURSIVE AllItemNodes(_, _)
AllItemNodes(E, i) ==
  (IF HasBase(E, i) THEN AllItemNodes(E, BaseIdx(E, i)) ELSE <<>>)
  \o [k \in DOMAIN OwnItems(E[i].n) |-> ExpItem(OwnItems(E[i].n)[k], EffKT(E, i), TPfx(E, i))]

ExpType(E, i) ==
  IF IsAbsT(E, i) THEN Node("abstracttype", ("name" :> TName(E, i)), <<>>, "")
  ELSE Node("sectiontype",
            ("name" :> TName(E, i)) @@ ("keytype" :> EffKT(E, i)) @@ ("datatype" :> EffDT(E, i))
              @@ (IF Has(E[i].n.a, "implements")
                  THEN ("implements" :> KeyNorm("basic-key", E[i].n.a["implements"])) ELSE <<>>),
            AllItemNodes(E, i), "")

ExpandDoc(rid) ==
  LET E  == FlatDoc(rid, FALSE, Acc(<<>>, {}, {}, {})).es
      keep == SelectSeq([i \in DOMAIN E |-> i], LAMBDA i : E[i].n.tag \in TypeTags \/ E[i].item)
      ra == RootOf(rid).a
  IN Node("schema",
          ("keytype" :> DocKT(rid)) @@ ("datatype" :> DocDT(rid)) @@ Restrict(ra, {"handler"}),
          [k \in DOMAIN keep |->
              IF E[keep[k]].n.tag \in TypeTags THEN ExpType(E, keep[k])
              ELSE ExpItem(E[keep[k]].n, E[keep[k]].kt, E[keep[k]].pfx)],
          "")

(* The expansion says the same only where an inherited (or merged) item    *)
(* name is a fixed point of the key type it is re-read under - C11 speaks  *)
(* of inheriting the key type "unless overridden" and of re-normalising    *)
(* the keyed defaults, not of re-normalising names.                        *)
ExpansionDefined(rid) ==
  LET E == FlatDoc(rid, FALSE, Acc(<<>>, {}, {}, {})).es IN
  /\ \A i \in TypeIdx(E) : ~IsAbsT(E, i) =>
        \A k \in DOMAIN AllViews(E, i) :
           LET v == AllViews(E, i)[k] IN v.key \notin {"", "+", Bad} => KeyNorm(EffKT(E, i), v.key) = v.key
  /\ \A i \in TopItemIdx(E) :
        LET v == View(E[i].n, E[i].kt) IN v.key \notin {"", "+", Bad} => KeyNorm(DocKT(rid), v.key) = v.key
=========================================================================
