----------------------------- MODULE ZLines -----------------------------
(* The schema-less text machine of ZLinesFn as a TLA+ state machine, and   *)
(* the design-level properties TLC checks on it (C03, C17).                *)
EXTENDS ZLinesFn

-------------------------------------------------------------------------
(* The text machine as a TLA+ state machine (one action per line kind).    *)
VARIABLES txt,   \* the text: a sequence of lines, each a sequence of characters
          cls,   \* Classify of every line (computed once, when the text is fixed)
          lm     \* machine state (see LStart)
lvars == <<txt, cls, lm>>

LInit(t) == /\ txt = t
            /\ cls = [i \in 1..Len(t) |-> Classify(t[i])]
            /\ lm = LStart

NextClass == cls[lm.n + 1]
CanRead   == lm.out.r = "run" /\ lm.n < Len(txt)

Take(kind) == /\ CanRead /\ NextClass.k = kind
              /\ lm' = LStepClass([lm EXCEPT !.n = @ + 1], NextClass)
              /\ UNCHANGED <<txt, cls>>

ReadSkip      == Take("skip")
ReadMalformed == Take("bad")
ReadOpen      == Take("open")
ReadClose     == Take("close")
ReadKeyValue  == Take("kv")
ReadDirective == Take("dir")
EndOfText     == /\ lm.out.r = "run" /\ lm.n = Len(txt)
                 /\ lm' = LFinish(lm) /\ UNCHANGED <<txt, cls>>

LNext == ReadSkip \/ ReadMalformed \/ ReadOpen \/ ReadClose \/ ReadKeyValue
         \/ ReadDirective \/ EndOfText

LDone == lm.out.r # "run"

-------------------------------------------------------------------------
(* Design-level properties.                                                *)
ClassifyEqualsShape ==
  lm.n = 0 =>
  \A i \in 1..Len(txt) :
     LET a == cls[i]
         b == Shape(txt[i])
     IN  IF a.k = "bad" THEN b.k = "bad"
         ELSE IF a.k = "close" THEN b.k = "close" /\ a.type = ShapeCloserType(Sub(Strip(txt[i]), 3, Len(Strip(txt[i])) - 1))
         ELSE a = b

MachineEqualsDescent ==
  LDone => LET d == Descent(txt)
           IN  IF lm.out.r = "ok" THEN d = lm.out ELSE d.r = "err"

(* Lines are consumed one at a time, in order; a failed parse is final.    *)
LTypeOK == /\ lm.n \in 0..Len(txt)
           /\ lm.out.r \in {"run", "ok", "err"}
           /\ Len(lm.stk) >= 1
=========================================================================
