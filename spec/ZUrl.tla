------------------------------- MODULE ZUrl -------------------------------
(* Paths, URLs and references (property C18).                              *)
(*                                                                         *)
(* Part A - strings (sequences of characters):                             *)
(*   IsPath       loader.BaseLoader.isPath: a string is a URL only if it   *)
(*                starts with a scheme of at least two characters          *)
(*   Normalize    url.urlnormalize: file:/x and file://x... are rewritten  *)
(*                so that they begin with file:///                         *)
(*   JoinFix      the same fix-up as applied to urllib's urljoin result    *)
(*   Defrag       url.urldefrag on top of urllib's (environment)           *)
(* each with an operational definition (a scan, a prefix test as the code  *)
(* does it) and the documented contract as a predicate.                    *)
(* (Part B, layouts: module ZUrlLayout.)                                   *)
EXTENDS ZChars, TLC

-------------------------------------------------------------------------
(* Part A                                                                  *)
SchemeChar(c) == c \in Letters \/ c \in Digits \/ c \in {"-", "+", "."}

(* operational: scan as the regular expression [a-zA-Z][-+.a-zA-Z0-9]*: does *)
RECURSIVE ScanScheme(_, _)
ScanScheme(s, i) == IF i > Len(s) THEN 0
                    ELSE IF s[i] = ":" THEN i
                    ELSE IF SchemeChar(s[i]) THEN ScanScheme(s, i + 1)
                    ELSE 0
SchemeColon(s) == IF s # <<>> /\ s[1] \in Letters THEN ScanScheme(s, 2) ELSE 0

IsPath(s) == IF Has(s, ":")
             THEN (SchemeColon(s) = 0 \/ SchemeColon(s) = 2)
             ELSE TRUE

(* declarative: a URL is a letter, at least one more scheme character, a colon *)
IsUrl(s) == \E k \in 3..Len(s) : /\ s[k] = ":" /\ s[1] \in Letters
                                 /\ \A j \in 2..(k - 1) : SchemeChar(s[j])
PathIffNotUrl(s) == IsPath(s) <=> ~IsUrl(s)

StartsWith(s, p) == Len(s) >= Len(p) /\ SubSeq(s, 1, Len(p)) = p
FileSlash  == <<"f", "i", "l", "e", ":", "/">>
FileSlash3 == <<"f", "i", "l", "e", ":", "/", "/", "/">>
FilePfx    == <<"f", "i", "l", "e", ":", "/", "/">>

Normalize(s) == LET lc == LowerSeq(s) IN
                IF StartsWith(lc, FileSlash) /\ ~StartsWith(lc, FileSlash3) THEN FilePfx \o From(s, 6) ELSE s
JoinFix(u)   == IF StartsWith(u, FileSlash) /\ ~StartsWith(u, FileSlash3) THEN FilePfx \o From(u, 6) ELSE u

(* contracts *)
NormContract(s) ==
  LET lc == LowerSeq(s) n == Normalize(s) IN
  /\ Normalize(n) = n                                              \* idempotent
  /\ StartsWith(lc, FileSlash) => StartsWith(n, FileSlash3)        \* file URLs get the file:/// form
  /\ ~StartsWith(lc, FileSlash) => n = s                           \* everything else is untouched
  /\ StartsWith(lc, FileSlash3) => n = s
  /\ StartsWith(lc, FileSlash) => From(n, 6) = (IF StartsWith(lc, FileSlash3) THEN From(s, 6) ELSE <<"/", "/">> \o From(s, 6))
JoinFixContract(u) == /\ JoinFix(JoinFix(u)) = JoinFix(u)
                      /\ StartsWith(u, FileSlash) => StartsWith(JoinFix(u), FileSlash3)
                      /\ ~StartsWith(u, FileSlash) => JoinFix(u) = u

(* the fragment of a reference: what follows the first '#'                 *)
FragOf(s) == IF Has(s, "#") THEN From(s, IndexOf(s, "#") + 1) ELSE <<>>
HasFragment(s) == FragOf(s) # <<>>
(* url.urldefrag on top of urllib's result [base, frag] (environment)      *)
Defrag(env) == [base |-> Normalize(env.base), frag |-> env.frag]

=========================================================================
