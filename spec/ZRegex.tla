------------------------------ MODULE ZRegex ------------------------------
(* Language equivalence, for strings of EVERY length, between the regular  *)
(* expression that the running code actually uses (compiled by the harness *)
(* from the live pattern object into a DFA over representative characters: *)
(* constants LiveDelta / LiveAcc) and an automaton written here from the   *)
(* documentation.  TLC explores the product of the two automata; the       *)
(* invariant says they accept the same strings.  The product is finite, so *)
(* exhausting it decides equivalence over the representative alphabet.     *)
EXTENDS ZChars, TLC

CONSTANTS Kind,        \* which documented shape
          Alphabet,    \* representative characters (one per class the pattern can distinguish)
          LiveDelta,   \* [state -> [character -> state]] of the live pattern's DFA
          LiveAcc,     \* its accepting states
          LiveInit

IdStart(c) == c \in Letters \/ c = "_"
IdChar(c)  == IdStart(c) \/ c \in Digits
KeyChar(c) == c \in Letters \/ c \in Digits \/ c \in {"-", ".", "_"}
HostLast(c) == c \in Letters \/ c \in Digits \/ c \in {"-", "_"}
TokChar(c)  == ~IsSpace(c) /\ c \notin {"(", ")"}

(* Documented shapes as automata: states are strings, "dead" rejects.      *)
SpecInit == "s0"
SpecDelta(q, c) ==
  CASE Kind = "basic-key" ->
         (IF q = "s0" THEN (IF c \in Letters THEN "in" ELSE "dead")
          ELSE IF q = "in" THEN (IF KeyChar(c) THEN "in" ELSE "dead") ELSE "dead")
    [] Kind \in {"identifier", "substitution-name"} ->
         (IF q = "s0" THEN (IF IdStart(c) THEN "in" ELSE "dead")
          ELSE IF q = "in" THEN (IF IdChar(c) THEN "in" ELSE "dead") ELSE "dead")
    [] Kind \in {"dotted-name", "dotted-suffix"} ->
         (IF q = "s0" THEN (IF IdStart(c) THEN "in"
                            ELSE IF c = "." /\ Kind = "dotted-suffix" THEN "dot" ELSE "dead")
          ELSE IF q = "in" THEN (IF IdChar(c) THEN "in" ELSE IF c = "." THEN "dot" ELSE "dead")
          ELSE IF q = "dot" THEN (IF IdStart(c) THEN "in" ELSE "dead")
          ELSE "dead")
    [] Kind = "hostname" ->          \* [A-Za-z_] then letters digits - _ . , not ending in "."
         (IF q = "s0" THEN (IF IdStart(c) THEN "first" ELSE "dead")
          ELSE IF q \in {"first", "in", "dot"} THEN (IF HostLast(c) THEN "in" ELSE IF c = "." THEN "dot" ELSE "dead")
          ELSE "dead")
    [] Kind = "url-scheme" ->        \* RFC 3986 scheme and its colon: ALPHA *( ALPHA / DIGIT / "+" / "-" / "." ) ":"
         (IF q = "s0" THEN (IF c \in Letters THEN "run" ELSE "dead")
          ELSE IF q = "run" THEN (IF c = ":" THEN "in"
                                  ELSE IF c \in Letters \/ c \in Digits \/ c \in {"+", "-", "."} THEN "run" ELSE "dead")
          ELSE "dead")
    [] Kind = "config-token" ->      \* a key / section type / section name: no white space, no parentheses
         (IF q \in {"s0", "in"} THEN (IF TokChar(c) THEN "in" ELSE "dead") ELSE "dead")
SpecAcc(q) == q = "in"

VARIABLES ql, qs
Init == ql = LiveInit /\ qs = SpecInit
Next == \E c \in Alphabet : ql' = LiveDelta[ql][c] /\ qs' = SpecDelta(qs, c)
Spec == Init /\ [][Next]_<<ql, qs>>

SameLanguage == (ql \in LiveAcc) <=> SpecAcc(qs)
=========================================================================
