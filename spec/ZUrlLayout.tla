----------------------------- MODULE ZUrlLayout -----------------------------
(* Property C18, part B - layouts: directories are sequences of segments   *)
(* below a common super-root; a reference from a resource in directory A   *)
(* to a resource in directory B is written in one of several shapes; what  *)
(* it resolves to is path algebra (join with the container's directory,    *)
(* remove dot segments).  The machine opens the top resource through one   *)
(* of the entry points and follows the chain of references; the invariants *)
(* say that every entry point and every reference shape reaches the        *)
(* intended resource.                                                      *)
EXTENDS ZUrl

Last(s)  == s[Len(s)]
Front(s) == SubSeq(s, 1, Len(s) - 1)

(* remove dot segments (RFC 3986 5.2.4 / os.path.normpath on POSIX)        *)
RECURSIVE NormFrom(_, _)
NormFrom(segs, acc) ==
  IF segs = <<>> THEN acc
  ELSE IF Head(segs) = "." THEN NormFrom(Tail(segs), acc)
  ELSE IF Head(segs) = ".." THEN NormFrom(Tail(segs), IF acc = <<>> THEN acc ELSE Front(acc))
  ELSE NormFrom(Tail(segs), Append(acc, Head(segs)))
NormSegs(segs) == NormFrom(segs, <<>>)

RECURSIVE CommonLen(_, _)
CommonLen(a, b) == IF a = <<>> \/ b = <<>> \/ Head(a) # Head(b) THEN 0 ELSE 1 + CommonLen(Tail(a), Tail(b))
Ups(n) == [i \in 1..n |-> ".."]

(* the reference text (as segments) from a resource in directory fromDir   *)
(* to the resource name in directory toDir                                 *)
RelRef(fromDir, toDir, name, shape) ==
  LET c   == CommonLen(fromDir, toDir)
      rel == Ups(Len(fromDir) - c) \o From(toDir, c + 1) \o <<name>>
  IN CASE shape = "rel"    -> rel
       [] shape = "dot"    -> <<".">> \o rel
       [] shape = "updown" -> <<"..", Last(fromDir)>> \o rel
       [] shape = "dotdot" -> Ups(Len(fromDir) - c) \o <<".">> \o From(toDir, c + 1) \o <<name>>
       \* an absolute path, a file: URL: the marker segment "/" says "from the super-root"
       [] shape \in {"abs", "url"} -> <<"/">> \o toDir \o <<name>>
ShapeOK(fromDir, shape) == shape = "updown" => Len(fromDir) >= 2

(* a relative reference is joined with the directory of the resource that contains it *)
(* (an absolute reference replaces the container's directory altogether)   *)
ResolveRef(containerDir, ref) == IF ref # <<>> /\ ref[1] = "/" THEN NormSegs(Tail(ref))
                                 ELSE NormSegs(containerDir \o ref)

CONSTANTS Dirs,      \* directories of the tree (segment sequences below the super-root)
          Cwds,      \* working directories (in the tree or outside)
          Shapes, Kinds, Frags, Chain

VARIABLES scn,       \* the scenario (chosen in Init)
          at,        \* index of the resource being read (0 = not yet opened)
          reached,   \* absolute segment sequences of the resources opened so far
          out        \* "run" | "ok" | "refused"
lvars == <<scn, at, reached, out>>

(* scn.res[i]: directory of resource i (its name is RName(i); how names    *)
(* and directories are spelled is the harness' business); scn.shape[i]:    *)
(* shape of the reference from resource i to resource i+1; scn.kind: entry *)
(* point; scn.cwd; scn.frag: 0 = none, i > 0 = the reference to resource i *)
(* carries a fragment identifier (1 = the entry URL)                       *)
RName(i) == CASE i = 1 -> "r1" [] i = 2 -> "r2" [] i = 3 -> "r3"
Scenarios ==
  {s \in [res : UNION {[1..n -> Dirs] : n \in Chain},
          shape : [1..2 -> Shapes], kind : Kinds, cwd : Cwds, frag : Frags] :
     /\ \A i \in 1..(Len(s.res) - 1) : ShapeOK(s.res[i], s.shape[i])
     /\ Len(s.res) < 3 => s.shape[2] = "rel"
     /\ Len(s.res) < 2 => s.shape[1] = "rel"
     /\ s.frag <= Len(s.res)
     /\ s.frag = 1 => s.kind = "url"}

FileOf(s, i) == s.res[i] \o <<RName(i)>>

(* what each entry point turns its argument into                           *)
EntryArg(s) ==
  CASE s.kind \in {"abs", "url", "fobj-abs"} -> FileOf(s, 1)                     \* absolute already
    [] s.kind \in {"rel", "fobj-rel"}        -> RelRef(s.cwd, s.res[1], RName(1), "rel")
EntryReaches(s) ==
  CASE s.kind \in {"abs", "url", "fobj-abs"} -> NormSegs(EntryArg(s))
    [] s.kind \in {"rel", "fobj-rel"}        -> NormSegs(s.cwd \o EntryArg(s))    \* os.path.abspath

LInit == /\ scn \in Scenarios /\ at = 0 /\ reached = <<>> /\ out = "run"

OpenTop == /\ out = "run" /\ at = 0
           /\ IF scn.frag = 1 THEN out' = "refused" /\ UNCHANGED <<at, reached>>
              ELSE /\ at' = 1 /\ reached' = <<EntryReaches(scn)>> /\ out' = "run"
           /\ UNCHANGED scn

FollowRef == /\ out = "run" /\ at >= 1 /\ at < Len(scn.res)
             /\ LET ref == RelRef(scn.res[at], scn.res[at + 1], RName(at + 1), scn.shape[at])
                IN IF scn.frag = at + 1 THEN out' = "refused" /\ UNCHANGED <<at, reached>>
                   ELSE /\ at' = at + 1
                        /\ reached' = Append(reached, ResolveRef(Front(reached[at]), ref))
                        /\ out' = "run"
             /\ UNCHANGED scn

Finish == /\ out = "run" /\ at = Len(scn.res) /\ out' = "ok" /\ UNCHANGED <<scn, at, reached>>

LNext == OpenTop \/ FollowRef \/ Finish
LSpec == LInit /\ [][LNext]_lvars
LDone == out # "run"

(* every entry point and every reference shape reaches the intended resource *)
ReachesIntended == \A i \in DOMAIN reached : reached[i] = FileOf(scn, i)
(* the algebra behind it, for every pair of directories                    *)
RefAlgebra == \A a \in Dirs \cup Cwds, b \in Dirs, sh \in Shapes :
                ShapeOK(a, sh) => ResolveRef(a, RelRef(a, b, "n", sh)) = b \o <<"n">>
RefusedOnlyForFragment == out = "refused" => scn.frag > 0
=========================================================================
