---------------------------- MODULE ZConform ----------------------------
(* Declarative side of the loader: what it means for a configuration text  *)
(* to conform to a schema (C01) and which typed value tree it denotes      *)
(* (C02).  Both are defined on the schema-less tree of the text            *)
(* (ZLinesFn!Descent: keys with their values in order, sections with type, *)
(* name, order and nesting) and never mention the order in which the       *)
(* loader processes lines or the tables it keeps while doing so: they      *)
(* count.                                                                  *)
EXTENDS ZLoadFn, FiniteSets

Idx(s) == 1..Len(s)
MinOf(I) == CHOOSE i \in I : \A j \in I : i <= j

(* The indices of a set of positions, as an increasing sequence.           *)
RECURSIVE SortedSeq(_)
SortedSeq(I) == IF I = {} THEN <<>> ELSE LET a == MinOf(I) IN <<a>> \o SortedSeq(I \ {a})

-------------------------------------------------------------------------
(* Which declared item a normalised key belongs to: the item of that name  *)
(* if there is one, otherwise the wildcard key; 0 if neither.              *)
KeyChild(ch, rk) ==
  LET J == {i \in Idx(ch) : ChildKey(ch[i]) = rk}
      W == {i \in Idx(ch) : IsWildKey(ch[i])}
  IN  IF J # {} THEN MinOf(J) ELSE IF W # {} THEN MinOf(W) ELSE 0

(* Which declared slot a section header belongs to.                        *)
TypeFits(vocab, c, tn) == IF vocab[c.stype].abstract THEN tn \in vocab[c.stype].impl ELSE c.stype = tn
NameOK(c, name) == /\ name \notin {"*", "+"}
                   /\ (c.name = "+" => name # "")
                   /\ (c.name \notin {"*", "+"} => name = c.name)
Claims(vocab, c, tn, name) == IF ChildKey(c) # NoKey THEN name # "" /\ ChildKey(c) = name
                              ELSE TypeFits(vocab, c, tn)
Admits(vocab, c, tn, name) == IsSectKind(c) /\ TypeFits(vocab, c, tn) /\ NameOK(c, name)

Slot(vocab, ch, tn, name) ==
  LET C == {i \in Idx(ch) : Claims(vocab, ch[i], tn, name)}
  IN  IF C = {} THEN 0
      ELSE IF Admits(vocab, ch[MinOf(C)], tn, name) THEN MinOf(C) ELSE 0

(* The statement leaves open what happens when the first item that claims  *)
(* a header refuses it while a later slot would admit it.                  *)
SlotUnspecified(vocab, ch, tn, name) ==
  /\ Slot(vocab, ch, tn, name) = 0
  /\ \E i \in Idx(ch) : Admits(vocab, ch[i], tn, name)

-------------------------------------------------------------------------
(* The typed value tree (C02).  Defined for any tree; meaningful when the  *)
(* tree conforms.                                                          *)
CV(dt, text) == ConvOf(dt, text).v

RECURSIVE ValueTree(_, _, _, _)
ValueTree(vocab, T, tname, node) ==
  LET ch  == T.children
      kv  == node.kv
      rk(i)    == KeyConvOf(T.keytype, kv[i][1]).v
      bound(i) == KeyChild(ch, rk(i))
      Of(c)    == SortedSeq({i \in Idx(kv) : bound(i) = c})          \* lines of item c, in file order
      SecOf(c) == SortedSeq({i \in Idx(node.secs) :
                               Slot(vocab, ch, node.secs[i].type, node.secs[i].name) = c})
      SubVal(i) == LET s == node.secs[i]
                   IN  SecConvOf(vocab[s.type].datatype, ValueTree(vocab, vocab[s.type], s.type, s)).v
      FirstKeys(c) ==        \* distinct normalised keys of a wildcard item, by first appearance
        LET o == Of(c) IN SortedSeq({i \in {o[j] : j \in Idx(o)} :
                                       \A j \in {o[q] : q \in Idx(o)} : j < i => rk(j) # rk(i)})
      ValOf(c) ==
        LET d == ch[c] o == Of(c) IN
        CASE d.kind = "key" /\ d.name # "+" ->
               (IF o # <<>> THEN [t |-> "v", v |-> CV(d.dt, kv[o[1]][2])]
                ELSE IF d.dflt # <<>> THEN [t |-> "v", v |-> CV(d.dt, d.dflt[1])] ELSE VNone)
          [] d.kind = "multikey" /\ d.name # "+" ->
               [t |-> "list", items |-> IF o # <<>> THEN [j \in Idx(o) |-> CV(d.dt, kv[o[j]][2])]
                                        ELSE [j \in Idx(d.dflt) |-> CV(d.dt, d.dflt[j])]]
          [] d.kind = "key" ->
               [t |-> "map", items |-> IF o # <<>> THEN [j \in Idx(o) |-> <<rk(o[j]), CV(d.dt, kv[o[j]][2])>>]
                                       ELSE [j \in Idx(d.dflt) |-> <<d.dflt[j][1], CV(d.dt, d.dflt[j][2])>>]]
          [] d.kind = "multikey" ->
               [t |-> "mapl", items |->
                  IF o # <<>>
                  THEN LET fk == FirstKeys(c)
                       IN  [j \in Idx(fk) |->
                              <<rk(fk[j]),
                                LET same == SortedSeq({i \in {o[q] : q \in Idx(o)} : rk(i) = rk(fk[j])})
                                IN  [q \in Idx(same) |-> CV(d.dt, kv[same[q]][2])]>>]
                  ELSE [j \in Idx(d.dflt) |->
                          <<d.dflt[j][1], [q \in Idx(d.dflt[j][2]) |-> CV(d.dt, d.dflt[j][2][q])]>>]]
          [] d.kind = "section" ->
               (LET so == SecOf(c) IN IF so = <<>> THEN VNone ELSE [t |-> "sec", v |-> SubVal(so[1])])
          [] d.kind = "multisection" ->
               (LET so == SecOf(c) IN [t |-> "secs", items |-> [j \in Idx(so) |-> SubVal(so[j])]])
  IN  SectionValue(tname, node.name, [c \in Idx(ch) |-> <<ch[c].attr, ValOf(c)>>])

-------------------------------------------------------------------------
(* Conformance (C01), clause by clause.                                    *)
RECURSIVE Conforms(_, _, _)
Conforms(vocab, T, node) ==
  LET ch  == T.children
      kv  == node.kv
      sc  == node.secs
      rkr(i)   == KeyConvOf(T.keytype, kv[i][1])
      rk(i)    == rkr(i).v
      bound(i) == KeyChild(ch, rk(i))
      slot(i)  == Slot(vocab, ch, sc[i].type, sc[i].name)
      Lines(c) == {i \in Idx(kv) : bound(i) = c}
      Secs(c)  == {i \in Idx(sc) : slot(i) = c}
  IN
  \* every key, after key-type normalisation, is a declared key or captured by a declared wildcard key
  /\ \A i \in Idx(kv) : rkr(i).ok /\ bound(i) # 0 /\ IsKeyKind(ch[bound(i)])
  \* every value converts under its declared datatype
  /\ \A i \in Idx(kv) : ConvOf(ch[bound(i)].dt, kv[i][2]).ok
  \* ... and so does every schema default that stands in for a key the text does not give
  /\ \A c \in Idx(ch) : (IsKeyKind(ch[c]) /\ Lines(c) = {}) =>
        \A j \in Idx(ch[c].dflt) :
           IF ch[c].name # "+" THEN ConvOf(ch[c].dt, ch[c].dflt[j]).ok
           ELSE IF ch[c].kind = "key" THEN ConvOf(ch[c].dt, ch[c].dflt[j][2]).ok
           ELSE \A q \in Idx(ch[c].dflt[j][2]) : ConvOf(ch[c].dt, ch[c].dflt[j][2][q]).ok
  \* no single-valued key is filled twice
  /\ \A c \in Idx(ch) : (ch[c].kind = "key" /\ ch[c].name # "+") => Cardinality(Lines(c)) <= 1
  /\ \A c \in Idx(ch) : (ch[c].kind = "key" /\ ch[c].name = "+") =>
        \A i, j \in Lines(c) : i # j => rk(i) # rk(j)
  \* every header names a known concrete type that fits a declared slot by type and by name rule
  /\ \A i \in Idx(sc) : /\ sc[i].type \in DOMAIN vocab
                        /\ ~vocab[sc[i].type].abstract
                        /\ slot(i) # 0
  \* no section name is reused inside one container
  /\ \A i, j \in Idx(sc) : (i # j /\ sc[i].name # "") => sc[i].name # sc[j].name
  \* no single section slot is filled twice
  /\ \A c \in Idx(ch) : ch[c].kind = "section" => Cardinality(Secs(c)) <= 1
  \* every required key, wildcard map and section slot is filled
  /\ \A c \in Idx(ch) : ch[c].req =>
        CASE ch[c].kind = "key" /\ ch[c].name # "+"      -> Lines(c) # {}
          [] ch[c].kind = "multikey" /\ ch[c].name # "+" -> Lines(c) # {} \/ ch[c].dflt # <<>>
          [] IsWildKey(ch[c])                             -> Lines(c) # {}
          [] OTHER                                        -> Secs(c) # {}
  \* sections conform to their own types, and their values convert under the section datatype
  /\ \A i \in Idx(sc) : /\ Conforms(vocab, vocab[sc[i].type], sc[i])
                        /\ SecConvOf(vocab[sc[i].type].datatype,
                                     ValueTree(vocab, vocab[sc[i].type], sc[i].type, sc[i])).ok

-------------------------------------------------------------------------
(* The handler list (C16), read off the parse tree: the entries of every   *)
(* nested section in the order the sections are closed in the text, then   *)
(* the section's own handler-bearing items in schema order, each with the  *)
(* value the value tree holds for that item.                               *)
RECURSIVE ConcatAll(_)
ConcatAll(ss) == IF ss = <<>> THEN <<>> ELSE ss[1] \o ConcatAll(Tail(ss))

RECURSIVE HandlerList(_, _, _, _)
HandlerList(vocab, T, tname, node) ==
  LET vt     == ValueTree(vocab, T, tname, node)
      nested == ConcatAll([i \in Idx(node.secs) |->
                             HandlerList(vocab, vocab[node.secs[i].type], node.secs[i].type, node.secs[i])])
      hs     == SortedSeq({c \in Idx(T.children) : T.children[c].handler # ""})
      own    == [j \in Idx(hs) |-> <<T.children[hs[j]].handler, vt.attrs[hs[j]][2]>>]
  IN  nested \o own

(* CompositeHandler.__call__ on an abstract handler map: `given` = the      *)
(* normalised names supplied, `nones` = those mapped to None, `dup` = two   *)
(* supplied names normalise to the same key.  Returns the indices of the    *)
(* entries called, in order, or a refusal without any call.                 *)
CallOutcome(hl, given, nones, dup) ==
  IF dup \/ (\E k \in Idx(hl) : hl[k][1] \notin given) THEN [r |-> "err", calls |-> <<>>]
  ELSE [r |-> "ok", calls |-> SortedSeq({k \in Idx(hl) : hl[k][1] \notin nones})]

(* Wildcard-key mappings are compared as mappings (no order).               *)
RECURSIVE CanonSV(_)
CanonVal(v) ==
  CASE v.t \in {"map", "mapl"} -> [t |-> v.t, items |-> {v.items[i] : i \in DOMAIN v.items}]
    [] v.t = "sec"  -> [t |-> "sec", v |-> CanonSV(v.v)]
    [] v.t = "secs" -> [t |-> "secs", items |-> [i \in DOMAIN v.items |-> CanonSV(v.items[i])]]
    [] OTHER        -> v
CanonSV(sv) ==
  IF "wrapped" \in DOMAIN sv THEN [wrapped |-> CanonSV(sv.wrapped)]
  ELSE [type |-> sv.type, name |-> sv.name,
        attrs |-> [i \in DOMAIN sv.attrs |-> <<sv.attrs[i][1], CanonVal(sv.attrs[i][2])>>]]

Similar(a, b) == \/ a.r = "err" /\ b.r = "err"
                 \/ a.r = "ok" /\ b.r = "ok" /\ CanonSV(a.tree) = CanonSV(b.tree)

RECURSIVE HasUnspecified(_, _, _)
HasUnspecified(vocab, T, node) ==
  \E i \in Idx(node.secs) :
     LET s == node.secs[i] IN
     \/ SlotUnspecified(vocab, T.children, s.type, s.name)
     \/ (s.type \in DOMAIN vocab /\ ~vocab[s.type].abstract /\ HasUnspecified(vocab, vocab[s.type], s))
=========================================================================
