----------------------------- MODULE ZRegistry -----------------------------
(* The datatype registry (ZConfig.datatypes.Registry; anchored by C09:     *)
(* "stock_datatypes table / Registry.get name normalisation").  State:     *)
(*   other   name -> conversion registered by the application or found by  *)
(*           search() (a dotted name that resolves to a Python object)     *)
(* the stock table is a constant of the registry.  Operations:             *)
(*   Get(n)        an undotted name is normalised with basic-key first     *)
(*                 (ValueError if it is not one); stock table, then the    *)
(*                 application's table, then search(): an undotted name    *)
(*                 that is found nowhere is ValueError, a dotted one is    *)
(*                 imported (environment: Resolves) and remembered         *)
(*   Register(n,c) refused (ValueError) for a stock name and for a name    *)
(*                 already registered or already found by search; the      *)
(*                 name is stored as written                               *)
(* Properties: the stock table can never be shadowed; a name keeps the     *)
(* conversion it was first given; Get is idempotent (asking twice gives    *)
(* the same conversion and changes nothing the second time).               *)
EXTENDS Naturals, Sequences, FiniteSets, TLC

CONSTANTS Stock,          \* set of stock names (lower-case basic keys)
          Names,          \* names the application uses
          Convs,          \* conversions the application registers
          BasicKey(_),    \* undotted name -> normalised name or "~bad~"
          IsDotted(_),    \* the name contains a "."
          Resolves(_),    \* dotted name -> the import machinery finds an object
          MaxOps

VARIABLES other, hist
rvars == <<other, hist>>

StockConv(n)  == "stock:" \o n
ImportConv(n) == "import:" \o n

Init == other = <<>> /\ hist = <<>>

(* result of Registry.get(n) and the table afterwards                      *)
GetResult(n) ==
  LET nn == IF IsDotted(n) THEN n ELSE BasicKey(n) IN
  IF nn = "~bad~" THEN [r |-> "ValueError", v |-> "", other |-> other]
  ELSE IF nn \in Stock THEN [r |-> "ok", v |-> StockConv(nn), other |-> other]
  ELSE IF nn \in DOMAIN other THEN [r |-> "ok", v |-> other[nn], other |-> other]
  ELSE IF ~IsDotted(nn) THEN [r |-> "ValueError", v |-> "", other |-> other]
  ELSE IF Resolves(nn) THEN [r |-> "ok", v |-> ImportConv(nn), other |-> (nn :> ImportConv(nn)) @@ other]
  ELSE [r |-> "import-failure", v |-> "", other |-> other]

Get(n) == /\ Len(hist) < MaxOps
          /\ LET g == GetResult(n) IN
             /\ other' = g.other
             /\ hist' = Append(hist, [op |-> "get", n |-> n, c |-> "", r |-> g.r, v |-> g.v])

Register(n, c) ==
  /\ Len(hist) < MaxOps
  /\ IF n \in Stock \/ n \in DOMAIN other
     THEN /\ other' = other
          /\ hist' = Append(hist, [op |-> "register", n |-> n, c |-> c, r |-> "ValueError", v |-> ""])
     ELSE /\ other' = (n :> c) @@ other
          /\ hist' = Append(hist, [op |-> "register", n |-> n, c |-> c, r |-> "ok", v |-> ""])

Next == (\E n \in Names : Get(n)) \/ (\E n \in Names, c \in Convs : Register(n, c))
Spec == Init /\ [][Next]_rvars

(* the stock table cannot be shadowed: no stock name ever enters the other table *)
StockNeverShadowed == DOMAIN other \cap Stock = {}
(* a name keeps the conversion it was first given *)
FirstBindingWins == [][\A n \in DOMAIN other : n \in DOMAIN other' /\ other'[n] = other[n]]_rvars
(* Get is idempotent *)
GetIdempotent ==
  \A n \in Names : LET g == GetResult(n) IN
     g.r = "ok" => LET o2 == g.other
                       nn == IF IsDotted(n) THEN n ELSE BasicKey(n)
                   IN (nn \in Stock \/ (nn \in DOMAIN o2 /\ o2[nn] = g.v))
(* a successful Get of an undotted name never consults the import machinery *)
UndottedNeverImported == \A n \in DOMAIN other : (other[n] = ImportConv(n)) => IsDotted(n)
=============================================================================
