---------------------------- MODULE ZSchemaLang ----------------------------
(* The schema language: schema documents -> schema objects.                *)
(*                                                                         *)
(* Operational side (Step): the SAX content handler of ZConfig.schema      *)
(* (BaseParser / SchemaParser / ComponentParser), one step per SAX event,  *)
(* with the element stack, the object stack, the prefix stack, the cdata   *)
(* buffer and - because <import> and schema/@extends parse another         *)
(* resource into the same (or, for import/@src, a separate) schema object  *)
(* in the middle of a start tag - a stack of parser frames.  The schema    *)
(* objects are the tables of ZConfig.info (type table, per-container child *)
(* lists, implementer sets, component registry).                           *)
(*                                                                         *)
(* Declarative side (WellFormed): the static rules of C10 stated over the  *)
(* document trees, with no reference to processing order other than        *)
(* "defined before use".                                                   *)
(*                                                                         *)
(* A document is a tree of nodes [tag, a, kids, text]: a maps attribute    *)
(* names to strings, text is the (stripped) character data directly inside *)
(* the element ("" = none).  Everything that depends on the spelling of a  *)
(* token is environment, given as tables with the scenario: key-type       *)
(* normalisation, lower-casing, identifier test, datatype-name lookup,     *)
(* prefix validity, reference resolution, package lookup.                  *)
EXTENDS Naturals, Sequences, FiniteSets, TLC

CONSTANTS
  KeyNorm(_, _),  \* (key type, token) -> normalised token, or Bad when the key type refuses it
  LowerOf(_),     \* token -> str.lower()
  AttrOf(_),      \* normalised key -> attribute name derived from it (basic-key, '-' -> '_', identifier) or Bad
  IsIdent(_),     \* token -> is an identifier
  IsReserved(_),  \* attribute name starts with "getSection"
  IsRel(_),       \* dotted name starts with "."
  DtCanon(_),     \* full datatype name -> registered name | Bad (ValueError) | Unres (import machinery fails)
  PfxAbsOK(_),    \* is a dotted-name
  PfxRelOK(_),    \* is a dotted-suffix (dotted-name, or leading "." forms)
  StripOf(_),     \* str.strip()
  HasDirPart(_),  \* os.path.dirname(file) non-empty
  SplitRefs(_),   \* schema/@extends -> sequence of references (str.split())
  RefOf(_, _),    \* (referring resource id, reference) -> [frag : BOOLEAN, rid : id | ""]
  PkgOf(_, _),    \* (package name, file) -> [ok : BOOLEAN, url : STRING, rid : STRING]
  DocOf(_)        \* resource id -> document tree

Bad   == "~bad~"
Unres == "~unres~"

Has(a, k)    == k \in DOMAIN a
Get(a, k, d) == IF k \in DOMAIN a THEN a[k] ELSE d
Last(s)      == s[Len(s)]
Front(s)     == SubSeq(s, 1, Len(s) - 1)
RECURSIVE Rev(_)
Rev(s) == IF s = <<>> THEN <<>> ELSE Append(Rev(Tail(s)), Head(s))
SeqToSet(s) == {s[i] : i \in DOMAIN s}

ItemTags  == {"key", "multikey", "section", "multisection"}
TypeTags  == {"sectiontype", "abstracttype"}
CdataTags == {"description", "metadefault", "example", "default"}

(* schema.py _allowed_parents (the DTD's content models, parent side).     *)
Allowed == [description  |-> {"key", "section", "multikey", "multisection", "sectiontype", "abstracttype",
                              "schema", "component"},
            example      |-> {"schema", "sectiontype", "key", "multikey", "section", "multisection"},
            metadefault  |-> {"key", "section", "multikey", "multisection"},
            default      |-> {"key", "multikey"},
            import       |-> {"schema", "component"},
            abstracttype |-> {"schema", "component"},
            sectiontype  |-> {"schema", "component"},
            key          |-> {"schema", "sectiontype"},
            multikey     |-> {"schema", "sectiontype"},
            section      |-> {"schema", "sectiontype"},
            multisection |-> {"schema", "sectiontype"}]

-------------------------------------------------------------------------
(* SAX events of a tree.                                                   *)
Ev(e, tag, a, text) == [e |-> e, tag |-> tag, a |-> a, text |-> text]
RECURSIVE Events(_)
RECURSIVE EventsOfKids(_)
EventsOfKids(ks) == IF ks = <<>> THEN <<>> ELSE Events(Head(ks)) \o EventsOfKids(Tail(ks))
Events(n) == <<Ev("S", n.tag, n.a, "")>>
             \o (IF n.text # "" THEN <<Ev("T", "", <<>>, n.text)>> ELSE <<>>)
             \o EventsOfKids(n.kids)
             \o <<Ev("E", n.tag, <<>>, "")>>

-------------------------------------------------------------------------
(* Schema objects.                                                         *)
(*  type  : [abstract |-> TRUE, impl] | [abstract |-> FALSE, keytype, datatype, children]            *)
(*  child : [kind, name, attr, dt, stype, req, dflt, handler, raw]                                   *)
(*          raw = the keyed defaults of a '+' key as written (<<key, value>> pairs), which a derived *)
(*          type re-normalises under its own key type                                                *)
NewTop == [abstract |-> FALSE, keytype |-> "basic-key", datatype |-> "null", handler |-> "", children |-> <<>>]
NewSch == [types |-> <<>>, order |-> <<>>, top |-> NewTop, comps |-> {}, ex |-> FALSE]

IsKeyKind(c)  == c.kind \in {"key", "multikey"}
IsWild(c)     == IsKeyKind(c) /\ c.name = "+"
ChildKeyOf(c) == IF c.kind \in {"section", "multisection"} /\ c.name \in {"*", "+"} THEN "" ELSE c.name

ContChildren(sch, c) == IF c = "" THEN sch.top.children ELSE sch.types[c].children
ContKT(sch, c)       == IF c = "" THEN sch.top.keytype ELSE sch.types[c].keytype
SetContChildren(sch, c, ch) == IF c = "" THEN [sch EXCEPT !.top.children = ch]
                               ELSE [sch EXCEPT !.types[c].children = ch]

(* Keyed defaults of a '+' key / multikey computed from the raw pairs under key type kt:             *)
(* KeyInfo.computedefault / MultiKeyInfo.computedefault.  r in {"ok", "dup", "conv"}.                *)
RECURSIVE AssocIdx(_, _, _)
AssocIdx(ps, k, i) == IF i > Len(ps) THEN 0 ELSE IF ps[i][1] = k THEN i ELSE AssocIdx(ps, k, i + 1)

RECURSIVE Keyed(_, _, _, _)
(* raw: for a '+' key <<key, value>> pairs; for a '+' multikey the values  *)
(* grouped by key as written, <<key, <<values>>>>, in order of first       *)
(* appearance (MultiKeyInfo keeps them in a mapping).                      *)
Keyed(kt, multi, raw, acc) ==
  IF raw = <<>> THEN [r |-> "ok", d |-> acc]
  ELSE LET k  == KeyNorm(kt, raw[1][1])
           v  == raw[1][2]
           p  == AssocIdx(acc, k, 1)
       IN IF k = Bad THEN [r |-> "conv", d |-> acc]
          ELSE IF multi
               THEN Keyed(kt, multi, Tail(raw),
                          IF p > 0 THEN [acc EXCEPT ![p] = <<k, @[2] \o v>>] ELSE Append(acc, <<k, v>>))
               ELSE IF p > 0 THEN [r |-> "dup", d |-> acc]
                    ELSE Keyed(kt, multi, Tail(raw), Append(acc, <<k, v>>))

-------------------------------------------------------------------------
(* Parser frames and the machine state.                                    *)
NoCD   == [on |-> FALSE, tag |-> "", a |-> <<>>, text |-> ""]
NoPend == [on |-> FALSE, a |-> <<>>, todo |-> <<>>, kt |-> "", dt |-> ""]
(* role: "main" | "base" (schema/@extends) | "src" (import/@src) | "comp" (import/@package)          *)
NewFrameEv(kind, rid, si, role, evs) ==
  [kind |-> kind, rid |-> rid, role |-> role, si |-> si, evs |-> evs,
   elems |-> <<>>, pfx |-> <<>>, ost |-> <<>>, cd |-> NoCD, bk |-> <<>>, bd |-> <<>>, pend |-> NoPend,
   rd |-> 0]
NewFrame(kind, rid, si, role) == NewFrameEv(kind, rid, si, role, Events(DocOf(rid)))

(* objects on the object stack                                                                       *)
Obj(k, n) == [k |-> k, n |-> n, i |-> 0, wild |-> FALSE, multi |-> FALSE, fin |-> FALSE, raw |-> <<>>,
              hasd |-> FALSE, hase |-> FALSE]

(* ev: the resource events so far (C19): <<"open", rid>> when a resource starts to be parsed, <<"close", rid>>  *)
(* when its parser frame is left - normally or because the load fails (all frames are unwound innermost first). *)
(* fault: [rid, n] - the n-th read of resource rid raises (environment; n = 0: none).  A document is read in   *)
(* one piece: read 1 returns it (its elements are then handled), read 2 finds the end of the resource.         *)
NoFault == [rid |-> "", n |-> 0]
StartF(rid, fault) == [err |-> "", any |-> FALSE, done |-> FALSE, schs |-> <<NewSch>>,
                       fr |-> <<NewFrame("schema", rid, 1, "main")>>, ev |-> <<<<"open", rid>>>>, fault |-> fault]
Start(rid) == StartF(rid, NoFault)
(* the same for a document given as a tree (it has no references to resolve) *)
StartTree(tree) == [err |-> "", any |-> FALSE, done |-> FALSE, schs |-> <<NewSch>>,
                    fr |-> <<NewFrameEv("schema", "~tree~", 1, "main", Events(tree))>>,
                    ev |-> <<<<"open", "~tree~">>>>, fault |-> NoFault]

F(st)        == st.fr[Len(st.fr)]
SetF(st, f)  == [st EXCEPT !.fr[Len(st.fr)] = f]
Sch(st)      == st.schs[F(st).si]
SetSch(st, s) == [st EXCEPT !.schs[F(st).si] = s]
TopObj(st)   == Last(F(st).ost)
SetTopObj(st, o) == LET f == F(st) IN SetF(st, [f EXCEPT !.ost[Len(f.ost)] = o])
PushObj(st, o)   == LET f == F(st) IN SetF(st, [f EXCEPT !.ost = Append(@, o)])
PopObj(st)       == LET f == F(st) IN SetF(st, [f EXCEPT !.ost = Front(@)])
Fail(st, why)    == [st EXCEPT !.err = why]
FailAny(st, why) == [st EXCEPT !.err = why, !.any = TRUE]
Failed(st)       == st.err # ""
Running(st)      == st.err = "" /\ ~st.done

TopLevelOf(kind) == IF kind = "schema" THEN "schema" ELSE "component"

(* the container an item start tag adds to: the schema itself or the open section type               *)
CurCont(st) == LET o == TopObj(st) IN IF o.k = "schema" THEN "" ELSE o.n

-------------------------------------------------------------------------
(* push_prefix / get_classname / get_datatype                              *)
PushPrefix(st, a) ==
  LET f == F(st)
      p == Get(a, "prefix", "")
      push(x) == SetF(st, [f EXCEPT !.pfx = Append(@, x)])
  IN IF p # "" THEN
        (IF f.pfx # <<>>
         THEN (IF ~PfxRelOK(p) THEN Fail(st, "not a valid prefix")
               ELSE push(IF IsRel(p) THEN Last(f.pfx) \o p ELSE p))
         ELSE (IF ~PfxAbsOK(p) THEN Fail(st, "not a valid prefix") ELSE push(p)))
     ELSE push(IF f.pfx # <<>> THEN Last(f.pfx) ELSE "")
PopPrefix(st) == LET f == F(st) IN SetF(st, [f EXCEPT !.pfx = Front(@)])

ClassName(f, nm) == IF IsRel(nm) THEN Last(f.pfx) \o nm ELSE nm

GetDT(f, a, key, dflt, baseval) ==
  IF Has(a, key) THEN DtCanon(ClassName(f, a[key]))
  ELSE IF baseval # "" THEN baseval ELSE DtCanon(dflt)

(* get_sect_typeinfo: [kt, vt, dt], each a registered name, Bad or Unres                             *)
TypeInfo(f, a, bkt, bdt) == [kt |-> GetDT(f, a, "keytype", "basic-key", bkt),
                             vt |-> GetDT(f, a, "valuetype", "string", ""),
                             dt |-> GetDT(f, a, "datatype", "null", bdt)]
TIBad(ti)   == Bad \in {ti.kt, ti.vt, ti.dt}
TIUnres(ti) == Unres \in {ti.kt, ti.vt, ti.dt}
(* the code resolves keytype, valuetype, datatype in this order and stops at the first failure       *)
TIFirst(ti) == IF ti.kt \in {Bad, Unres} THEN ti.kt ELSE IF ti.vt \in {Bad, Unres} THEN ti.vt ELSE ti.dt

HandlerOf(a) == IF Has(a, "handler") THEN KeyNorm("basic-key", a["handler"]) ELSE ""
ReqBad(a)    == Has(a, "required") /\ a["required"] \notin {"yes", "no"}
ReqOf(a)     == Get(a, "required", "no") = "yes"

-------------------------------------------------------------------------
(* get_name_info: [e, any, name, attr]                                     *)
NameInfo(st, a, dfltname) ==
  LET nm == Get(a, "name", dfltname)
      an == Get(a, "attribute", "")
      no(why) == [e |-> why, any |-> "", name |-> "", attr |-> ""]
  IN IF nm = "" THEN no("name must be specified and non-empty")
     ELSE IF an # "" /\ ~IsIdent(an) THEN no("attribute is not an identifier")
     ELSE IF an # "" /\ IsReserved(an) THEN no("attribute names may not start with getSection")
     ELSE IF nm \in {"*", "+"}
          THEN (IF an = "" THEN no("container attribute must be specified")
                ELSE [e |-> "", any |-> nm, name |-> "", attr |-> an])
     ELSE LET k == KeyNorm(ContKT(Sch(st), CurCont(st)), nm) IN
          IF k = Bad THEN no("could not convert key name to keytype")
          ELSE IF an # "" THEN [e |-> "", any |-> "", name |-> k, attr |-> an]
          ELSE IF AttrOf(k) = Bad THEN no("no attribute name derivable")
          ELSE [e |-> "", any |-> "", name |-> k, attr |-> AttrOf(k)]

(* SectionType._add_child                                                  *)
AddChild(st, child) ==
  LET c   == CurCont(st)
      sch == Sch(st)
      ch  == ContChildren(sch, c)
      k   == ChildKeyOf(child)
  IN IF k # "" /\ \E i \in DOMAIN ch : ChildKeyOf(ch[i]) = k THEN Fail(st, "child name already used")
     ELSE IF \E i \in DOMAIN ch : ch[i].attr = child.attr THEN Fail(st, "child attribute name already used")
     ELSE SetSch(st, SetContChildren(sch, c, Append(ch, child)))

Child(kind, name, attr, dt, stype, req, dflt, handler) ==
  [kind |-> kind, name |-> name, attr |-> attr, dt |-> dt, stype |-> stype, req |-> req, dflt |-> dflt,
   handler |-> handler, raw |-> <<>>]

-------------------------------------------------------------------------
(* start_key / start_multikey                                              *)
StartKey(st, a, multi) ==
  LET f  == F(st)
      ni == NameInfo(st, a, "")
      dt == GetDT(f, a, "datatype", "string", "")
      h  == HandlerOf(a)
      nm == IF ni.any # "" THEN ni.any ELSE ni.name
      dv == IF ~multi /\ Has(a, "default") THEN <<StripOf(a["default"])>> ELSE <<>>
      child == Child(IF multi THEN "multikey" ELSE "key", nm, ni.attr, dt, "", ReqOf(a), dv, h)
      c  == CurCont(st)
      st1 == AddChild(st, child)
      obj == [Obj("key", c) EXCEPT !.i = Len(ContChildren(Sch(st), c)) + 1, !.wild = (nm = "+"), !.multi = multi,
                                   !.fin = (~multi /\ nm # "+")]
  IN IF multi /\ Has(a, "default") THEN Fail(st, "default values for multikey must be given using default elements")
     ELSE IF ni.e # "" THEN Fail(st, ni.e)
     ELSE IF ni.any = "*" THEN Fail(st, "may not specify * for name")
     ELSE IF dt = Bad THEN Fail(st, "unknown datatype")
     ELSE IF dt = Unres THEN FailAny(st, "unloadable datatype")
     ELSE IF h = Bad THEN Fail(st, "handler is not a basic-key")
     ELSE IF ReqBad(a) THEN Fail(st, "value for required must be yes or no")
     ELSE IF ~multi /\ Has(a, "default") /\ ReqOf(a) THEN Fail(st, "required key cannot have a default value")
     ELSE IF ~multi /\ Has(a, "default") /\ nm = "+" THEN Fail(st, "default values must be keyed for name=+")
     ELSE IF Failed(st1) THEN st1
     ELSE PushObj(st1, obj)

(* end_key / end_multikey: the keyed defaults of a '+' item are computed now                         *)
EndKey(st) ==
  LET o   == TopObj(st)
      st1 == PopObj(st)
      sch == Sch(st1)
      ch  == ContChildren(sch, o.n)
      kd  == Keyed(ContKT(sch, o.n), o.multi, o.raw, <<>>)
  IN IF ~o.wild THEN st1
     ELSE IF kd.r = "conv" THEN FailAny(st1, "default key not convertible")
     ELSE IF kd.r = "dup" THEN Fail(st1, "duplicate default value for key")
     ELSE SetSch(st1, SetContChildren(sch, o.n, [ch EXCEPT ![o.i].dflt = kd.d, ![o.i].raw = o.raw]))

(* characters_default -> BaseKeyInfo.adddefault                            *)
CharsDefault(st, data, a) ==
  LET o   == TopObj(st)
      sch == Sch(st)
      ch  == ContChildren(sch, o.n)
  IN IF o.fin THEN Fail(st, "cannot add default values to finished KeyInfo")
     ELSE IF o.wild /\ ~Has(a, "key") THEN Fail(st, "default values must be keyed for name=+")
     ELSE IF ~o.wild /\ Has(a, "key") THEN Fail(st, "unexpected key for default value")
     ELSE IF o.wild
          THEN LET p == AssocIdx(o.raw, a["key"], 1) IN
               (IF ~o.multi THEN (IF p > 0 THEN Fail(st, "duplicate default value for key")
                                  ELSE SetTopObj(st, [o EXCEPT !.raw = Append(@, <<a["key"], data>>)]))
                ELSE IF p > 0 THEN SetTopObj(st, [o EXCEPT !.raw[p] = <<a["key"], Append(@[2], data)>>])
                ELSE SetTopObj(st, [o EXCEPT !.raw = Append(@, <<a["key"], <<data>>>>)]))
     ELSE SetSch(st, SetContChildren(sch, o.n, [ch EXCEPT ![o.i].dflt = Append(@, data)]))

-------------------------------------------------------------------------
(* start_section / start_multisection                                      *)
StartSection(st, a, multi) ==
  LET ty  == Get(a, "type", "")
      tn  == LowerOf(ty)
      sch == Sch(st)
      h   == HandlerOf(a)
      ni  == NameInfo(st, a, "*")
      nm  == IF ni.any # "" THEN ni.any ELSE ni.name
      child == Child(IF multi THEN "multisection" ELSE "section", nm, ni.attr, "", tn, ReqOf(a), <<>>, h)
      st1 == AddChild(st, child)
  IN IF ty = "" THEN Fail(st, "section must specify type")
     ELSE IF tn \notin DOMAIN sch.types THEN Fail(st, "unknown type name")
     ELSE IF h = Bad THEN Fail(st, "handler is not a basic-key")
     ELSE IF ReqBad(a) THEN Fail(st, "value for required must be yes or no")
     ELSE IF ni.e # "" THEN Fail(st, ni.e)
     ELSE IF multi /\ ni.any = "" THEN Fail(st, "multisection must specify * or + for the name")
     ELSE IF Failed(st1) THEN st1
     ELSE PushObj(st1, Obj("sect", ""))

-------------------------------------------------------------------------
(* start_abstracttype / start_sectiontype                                  *)
AddType(sch, n, rec) == [sch EXCEPT !.types = (n :> rec) @@ @, !.order = Append(@, n)]

StartAbstract(st, a) ==
  LET nm  == Get(a, "name", "")
      n   == KeyNorm("basic-key", nm)
      sch == Sch(st)
  IN IF nm = "" THEN Fail(st, "abstracttype name must not be omitted or empty")
     ELSE IF n = Bad THEN Fail(st, "type name is not a basic-key")
     ELSE IF n \in DOMAIN sch.types THEN Fail(st, "type name cannot be redefined")
     ELSE PushObj(SetSch(st, AddType(sch, n, [abstract |-> TRUE, impl |-> {}])), Obj("abs", n))

(* SchemaType.deriveSectionType: copies of the base's children; '+' items re-keyed under the new key type *)
RECURSIVE Derive(_, _, _)
Derive(ch, kt, i) ==
  IF i > Len(ch) THEN [r |-> "ok", ch |-> ch]
  ELSE IF IsWild(ch[i])
       THEN LET kd == Keyed(kt, ch[i].kind = "multikey", ch[i].raw, <<>>) IN
            IF kd.r # "ok" THEN [r |-> kd.r, ch |-> ch]
            ELSE Derive([ch EXCEPT ![i].dflt = kd.d], kt, i + 1)
       ELSE Derive(ch, kt, i + 1)

StartSectiontype(st, a) ==
  LET nm  == Get(a, "name", "")
      n   == KeyNorm("basic-key", nm)
      st1 == PushPrefix(st, a)
      f   == F(st1)
      sch == Sch(st1)
      ext == Has(a, "extends")
      bn  == IF ext THEN KeyNorm("basic-key", a["extends"]) ELSE ""
      bok == ext /\ bn # Bad /\ bn \in DOMAIN sch.types /\ ~sch.types[bn].abstract
      ti  == IF bok THEN TypeInfo(f, a, sch.types[bn].keytype, sch.types[bn].datatype) ELSE TypeInfo(f, a, "", "")
      dv  == IF bok THEN Derive(sch.types[bn].children, ti.kt, 1) ELSE [r |-> "ok", ch |-> <<>>]
      sch2 == AddType(sch, n, [abstract |-> FALSE, keytype |-> ti.kt, datatype |-> ti.dt, children |-> dv.ch])
      imp == Has(a, "implements")
      ifn == IF imp THEN KeyNorm("basic-key", a["implements"]) ELSE ""
      sch3 == IF imp /\ ifn # Bad /\ ifn \in DOMAIN sch2.types /\ sch2.types[ifn].abstract
              THEN [sch2 EXCEPT !.types[ifn].impl = @ \cup {n}] ELSE sch2
  IN IF nm = "" THEN Fail(st, "sectiontype name must not be omitted or empty")
     ELSE IF n = Bad THEN Fail(st, "type name is not a basic-key")
     ELSE IF Failed(st1) THEN st1
     ELSE IF ext /\ bn = Bad THEN Fail(st, "extends is not a basic-key")
     ELSE IF ext /\ bn \notin DOMAIN sch.types THEN Fail(st, "unknown type name")
     ELSE IF ext /\ sch.types[bn].abstract THEN Fail(st, "sectiontype cannot extend an abstract type")
     ELSE IF TIFirst(ti) = Bad THEN Fail(st, "unknown datatype")
     ELSE IF TIFirst(ti) = Unres THEN FailAny(st, "unloadable datatype")
     ELSE IF n \in DOMAIN sch.types THEN Fail(st, "type name cannot be redefined")
     ELSE IF dv.r = "conv" THEN FailAny(st, "default key not convertible under the derived key type")
     ELSE IF dv.r = "dup" THEN Fail(st, "duplicate default value for key under the derived key type")
     ELSE IF imp /\ ifn = Bad THEN Fail(st, "implements is not a basic-key")
     ELSE IF imp /\ ifn \notin DOMAIN sch2.types THEN Fail(st, "unknown type name")
     ELSE IF imp /\ ~sch2.types[ifn].abstract THEN Fail(st, "type specified by implements is not an abstracttype")
     ELSE PushObj(SetSch(st1, sch3), Obj("type", n))

-------------------------------------------------------------------------
(* start_schema, in two halves: the part before the bases are parsed and   *)
(* the part after (FinishStartSchema).                                     *)
StartSchema(st, a) ==
  LET st1 == PushPrefix(st, a)
      f   == F(st1)
      h   == HandlerOf(a)
      ti  == TypeInfo(f, a, "", "")
      sch == Sch(st1)
      sch1 == IF f.role \in {"main", "src"} THEN [sch EXCEPT !.top.handler = h] ELSE sch
      todo == IF Has(a, "extends") THEN Rev(SplitRefs(a["extends"])) ELSE <<>>
  IN IF Failed(st1) THEN st1
     ELSE IF h = Bad THEN Fail(st, "handler is not a basic-key")
     ELSE IF TIFirst(ti) = Bad THEN Fail(st, "unknown datatype")
     ELSE IF TIFirst(ti) = Unres THEN FailAny(st, "unloadable datatype")
     ELSE SetF(SetSch(st1, sch1),
               [f EXCEPT !.ost = <<Obj("schema", "")>>,
                         !.pend = [on |-> TRUE, a |-> a, todo |-> todo, kt |-> ti.kt, dt |-> ti.dt]])

AllSame(s) == \A i \in DOMAIN s : s[i] = s[1]

ResumeSchema(st) ==
  LET f == F(st)
      p == f.pend
  IN IF p.todo # <<>> THEN
        LET r == RefOf(f.rid, Head(p.todo))
            f1 == [f EXCEPT !.pend.todo = Tail(@)]
        IN IF r.frag THEN Fail(st, "schema extends may not include a fragment identifier")
           ELSE IF r.rid = "" THEN FailAny(st, "cannot open base schema")
           ELSE [SetF(st, f1) EXCEPT !.fr = Append(@, NewFrame("schema", r.rid, f.si, "base")),
                                     !.ev = Append(@, <<"open", r.rid>>)]
     ELSE
        LET kconf == f.bk # <<>> /\ ~Has(p.a, "keytype") /\ ~AllSame(f.bk)
            dconf == f.bd # <<>> /\ ~Has(p.a, "datatype") /\ ~AllSame(f.bd)
            kt == IF f.bk # <<>> /\ ~Has(p.a, "keytype") THEN f.bk[1] ELSE p.kt
            dt == IF f.bd # <<>> /\ ~Has(p.a, "datatype") THEN f.bd[1] ELSE p.dt
            sch == [Sch(st) EXCEPT !.top.keytype = kt, !.top.datatype = dt]
            st1 == SetF(SetSch(st, sch), [f EXCEPT !.pend = NoPend])
            n == Len(st.fr)
        IN IF kconf THEN Fail(st, "base schemas have conflicting keytypes")
           ELSE IF dconf THEN Fail(st, "base schemas have conflicting datatypes")
           ELSE IF f.role = "base"
                THEN [st1 EXCEPT !.fr[n - 1].bk = Append(@, kt), !.fr[n - 1].bd = Append(@, dt)]
                ELSE st1

-------------------------------------------------------------------------
(* start_import                                                            *)
StartImport(st, a) ==
  LET f    == F(st)
      src  == StripOf(Get(a, "src", ""))
      pkg  == StripOf(Get(a, "package", ""))
      file == StripOf(Get(a, "file", ""))
      r    == RefOf(f.rid, src)
      pi   == PkgOf(ClassName(f, pkg), file)
      sch  == Sch(st)
  IN IF src = "" /\ pkg = "" THEN Fail(st, "import must specify either src or package")
     ELSE IF src # "" /\ pkg # "" THEN Fail(st, "import may only specify one of src or package")
     ELSE IF src # "" THEN
        (IF file # "" THEN Fail(st, "import may not specify file and src")
         ELSE IF r.frag THEN Fail(st, "import src may not include a fragment identifier")
         ELSE IF r.rid = "" THEN FailAny(st, "cannot open imported schema")
         ELSE [st EXCEPT !.schs = Append(@, NewSch),
                         !.fr = Append(@, NewFrame("schema", r.rid, Len(st.schs) + 1, "src")),
                         !.ev = Append(@, <<"open", r.rid>>)])
     ELSE
        (IF HasDirPart(file) THEN Fail(st, "file may not include a directory part")
         ELSE IF ~pi.ok THEN Fail(st, "schema component cannot be located")
         ELSE IF pi.url \in sch.comps THEN st
         ELSE [SetSch(st, [sch EXCEPT !.comps = @ \cup {pi.url}])
                 EXCEPT !.fr = Append(@, NewFrame("component", pi.rid, f.si, "comp")),
                        !.ev = Append(@, <<"open", pi.rid>>)])

-------------------------------------------------------------------------
(* startElement / characters / endElement                                  *)
Dispatch(st, tag, a) ==
  CASE tag = "schema"       -> StartSchema(st, a)
    [] tag = "component"    -> PushPrefix(st, a)
    [] tag = "import"       -> StartImport(st, a)
    [] tag = "abstracttype" -> StartAbstract(st, a)
    [] tag = "sectiontype"  -> StartSectiontype(st, a)
    [] tag = "key"          -> StartKey(st, a, FALSE)
    [] tag = "multikey"     -> StartKey(st, a, TRUE)
    [] tag = "section"      -> StartSection(st, a, FALSE)
    [] tag = "multisection" -> StartSection(st, a, TRUE)
    [] OTHER                -> LET f == F(st) IN
                               SetF(st, [f EXCEPT !.cd = [on |-> TRUE, tag |-> tag, a |-> a, text |-> ""]])

StartEl(st, tag, a) ==
  LET f == F(st)
      pushed == SetF(st, [f EXCEPT !.elems = Append(@, tag)])
  IN IF f.elems # <<>>
     THEN (IF tag \notin DOMAIN Allowed THEN Fail(st, "unknown tag")
           ELSE IF Last(f.elems) \notin Allowed[tag] THEN Fail(st, "elements may not be nested that way")
           ELSE Dispatch(pushed, tag, a))
     ELSE (IF tag # TopLevelOf(f.kind) THEN Fail(st, "unknown document type")
           ELSE Dispatch(pushed, tag, a))

Chars(st, text) ==
  LET f == F(st) IN
  IF f.cd.on THEN SetF(st, [f EXCEPT !.cd.text = @ \o text])
  ELSE Fail(st, "unexpected non-blank character data")

EndCdata(st, tag, data, a) ==
  LET f == F(st) IN
  CASE tag = "default" -> CharsDefault(st, data, a)
    [] tag = "description" ->
         (IF f.kind = "component" THEN st
          ELSE IF TopObj(st).hasd THEN Fail(st, "at most one description may be used for each element")
          ELSE SetTopObj(st, [TopObj(st) EXCEPT !.hasd = TRUE]))
    [] tag = "example" ->
         (IF TopObj(st).k = "schema"
          THEN (IF Sch(st).ex THEN Fail(st, "at most one example may be used for each element")
                ELSE SetSch(st, [Sch(st) EXCEPT !.ex = TRUE]))
          ELSE IF TopObj(st).hase THEN Fail(st, "at most one example may be used for each element")
          ELSE SetTopObj(st, [TopObj(st) EXCEPT !.hase = TRUE]))
    [] OTHER -> st

EndEl(st, tag) ==
  LET f   == F(st)
      st1 == SetF(st, [f EXCEPT !.elems = Front(@)])
  IN CASE tag \in {"key", "multikey"}           -> EndKey(st1)
       [] tag \in {"section", "multisection"}   -> PopObj(st1)
       [] tag = "abstracttype"                  -> PopObj(st1)
       [] tag = "sectiontype"                   -> PopObj(PopPrefix(st1))
       [] tag = "import"                        -> st1
       [] tag = "schema"                        -> PopPrefix(PopObj(st1))
       [] tag = "component"                     -> PopPrefix(st1)
       [] OTHER -> EndCdata(SetF(st1, [F(st1) EXCEPT !.cd = NoCD]), tag, f.cd.text, f.cd.a)

(* a resource has been read to its end                                     *)
RECURSIVE MergeTypes(_, _, _)
MergeTypes(sch, sub, i) ==
  IF i > Len(sub.order) THEN [ok |-> TRUE, sch |-> sch]
  ELSE LET n == sub.order[i] IN
       IF n \in DOMAIN sch.types THEN [ok |-> FALSE, sch |-> sch]
       ELSE MergeTypes(AddType(sch, n, sub.types[n]), sub, i + 1)

EndFrame(st) ==
  LET f == F(st)
      n == Len(st.fr)
  IN IF st.fault.n = 2 /\ st.fault.rid = f.rid THEN FailAny(st, "read fault")
     ELSE IF n = 1 THEN [st EXCEPT !.done = TRUE, !.ev = Append(@, <<"close", f.rid>>)]
     ELSE IF f.role = "src"
          THEN LET below == st.fr[n - 1]
                   mt == MergeTypes(st.schs[below.si], st.schs[f.si], 1)
               IN IF ~mt.ok THEN Fail([st EXCEPT !.fr = Front(@), !.schs = Front(@),
                                                  !.ev = Append(@, <<"close", f.rid>>)],
                                      "type name cannot be redefined")
                  ELSE [st EXCEPT !.fr = Front(@), !.schs = [Front(@) EXCEPT ![below.si] = mt.sch],
                                  !.ev = Append(@, <<"close", f.rid>>)]
          ELSE [st EXCEPT !.fr = Front(@), !.ev = Append(@, <<"close", f.rid>>)]

(* one step of the machine                                                 *)
StepKind(st) ==
  LET f == F(st) IN
  IF f.rd = 0 THEN "ReadResource"
  ELSE IF f.pend.on THEN "Resume"
  ELSE IF f.evs = <<>> THEN "EndOfResource"
  ELSE IF Head(f.evs).e = "S" THEN "Start_" \o Head(f.evs).tag
  ELSE IF Head(f.evs).e = "T" THEN "Characters"
  ELSE "End"

Step(st) ==
  LET f == F(st) IN
  IF f.rd = 0 THEN (IF st.fault.n = 1 /\ st.fault.rid = f.rid THEN FailAny(st, "read fault")
                    ELSE SetF(st, [f EXCEPT !.rd = 1]))
  ELSE IF f.pend.on THEN ResumeSchema(st)
  ELSE IF f.evs = <<>> THEN EndFrame(st)
  ELSE LET ev  == Head(f.evs)
           st1 == SetF(st, [f EXCEPT !.evs = Tail(@)])
       IN CASE ev.e = "S" -> StartEl(st1, ev.tag, ev.a)
            [] ev.e = "T" -> Chars(st1, ev.text)
            [] ev.e = "E" -> EndEl(st1, ev.tag)

(* the resource events of a finished or failed build: a failure unwinds every open frame, innermost first *)
RECURSIVE CloseAllFrames(_, _)
CloseAllFrames(fr, ev) == IF fr = <<>> THEN ev
                          ELSE CloseAllFrames(Front(fr), Append(ev, <<"close", fr[Len(fr)].rid>>))
ResourceEvents(st) == IF st.err # "" THEN CloseAllFrames(st.fr, st.ev) ELSE st.ev

(* opens and closes nest, and nothing stays open *)
RECURSIVE Nested(_, _)
Nested(evs, stack) ==
  IF evs = <<>> THEN stack = <<>>
  ELSE IF evs[1][1] = "open" THEN Nested(Tail(evs), Append(stack, evs[1][2]))
  ELSE stack # <<>> /\ stack[Len(stack)] = evs[1][2] /\ Nested(Tail(evs), Front(stack))

RECURSIVE RunFrom(_)
RunFrom(st) == IF Running(st) THEN RunFrom(Step(st)) ELSE st
Build(rid) == RunFrom(Start(rid))
BuildTree(tree) == RunFrom(StartTree(tree))

-------------------------------------------------------------------------
(* What the application sees of a schema object.                           *)
ChildDig(c) == [kind |-> c.kind, name |-> c.name, attr |-> c.attr, dt |-> c.dt, stype |-> c.stype, req |-> c.req,
                dflt |-> c.dflt, handler |-> c.handler]
TypeDig(t) == IF t.abstract THEN [abstract |-> TRUE, impl |-> t.impl]
              ELSE [abstract |-> FALSE, keytype |-> t.keytype, datatype |-> t.datatype,
                    children |-> [i \in DOMAIN t.children |-> ChildDig(t.children[i])]]
Digest(sch) == [top |-> [TypeDig(sch.top) EXCEPT !.abstract = FALSE] @@ [handler |-> sch.top.handler],
                types |-> [n \in DOMAIN sch.types |-> TypeDig(sch.types[n])]]
=========================================================================
