---------------------------- MODULE ZSchemaRules ----------------------------
(* The static rules of the schema language (property C10), stated over the *)
(* document trees.  Nothing here looks at parser state: a document is      *)
(* flattened into the sequence of its schema-level elements in effective   *)
(* order (base schemas first, components in place of their first import),  *)
(* and every rule is a predicate over that sequence:                       *)
(*   unique type names; types defined before use; extends -> concrete,     *)
(*   implements -> abstract; per container unique names and attributes,    *)
(*   inherited ones included; wildcard names carry an attribute, never '*' *)
(*   for keys; multisections named '*' or '+'; no default on a required    *)
(*   key; defaults keyed exactly for wildcards and not colliding after     *)
(*   normalisation (also under the key type of every deriving type);       *)
(*   well-formed names, attributes, 'required' values, datatype names,     *)
(*   prefixes; nesting as in the DTD, no stray text.                       *)
EXTENDS ZSchemaLang

RootOf(rid) == DocOf(rid)
KidsTagged(n, tags) == SelectSeq(n.kids, LAMBDA k : k.tag \in tags)
CountTag(n, tag) == Len(KidsTagged(n, {tag}))

-------------------------------------------------------------------------
(* Nesting and character data.                                             *)
RECURSIVE NestOK(_)
NestOK(n) ==
  /\ n.tag \notin CdataTags => n.text = ""
  /\ \A i \in DOMAIN n.kids :
        /\ n.kids[i].tag \in DOMAIN Allowed
        /\ n.tag \in Allowed[n.kids[i].tag]
        /\ NestOK(n.kids[i])

(* at most one <description> / <example> per element (a component document *)
(* is not held to the description rule by ComponentParser: left open)      *)
RECURSIVE OnceOK(_, _)
OnceOK(n, comp) ==
  /\ comp \/ CountTag(n, "description") <= 1
  /\ (n.tag # "schema") => CountTag(n, "example") <= 1
  /\ \A i \in DOMAIN n.kids : OnceOK(n.kids[i], comp)

-------------------------------------------------------------------------
(* Document-level attributes.                                              *)
DocPfx(rid) == Get(RootOf(rid).a, "prefix", "")
Cls(pfx, nm) == IF IsRel(nm) THEN pfx \o nm ELSE nm
DtRef(pfx, a, key, dflt) == IF Has(a, key) THEN DtCanon(Cls(pfx, a[key])) ELSE dflt
DtRefsOK(pfx, a, keys) == \A k \in keys : Has(a, k) => DtCanon(Cls(pfx, a[k])) \notin {Bad, Unres}

BaseRefs(rid) == IF Has(RootOf(rid).a, "extends") THEN Rev(SplitRefs(RootOf(rid).a["extends"])) ELSE <<>>
BaseRids(rid) == [i \in DOMAIN BaseRefs(rid) |-> RefOf(rid, BaseRefs(rid)[i]).rid]

RECURSIVE DocKT(_)
DocKT(rid) == LET a == RootOf(rid).a IN
              IF Has(a, "keytype") THEN DtCanon(Cls(DocPfx(rid), a["keytype"]))
              ELSE IF BaseRids(rid) # <<>> /\ BaseRids(rid)[1] # "" THEN DocKT(BaseRids(rid)[1])
              ELSE "basic-key"
RECURSIVE DocDT(_)
DocDT(rid) == LET a == RootOf(rid).a IN
              IF Has(a, "datatype") THEN DtCanon(Cls(DocPfx(rid), a["datatype"]))
              ELSE IF BaseRids(rid) # <<>> /\ BaseRids(rid)[1] # "" THEN DocDT(BaseRids(rid)[1])
              ELSE "null"

-------------------------------------------------------------------------
(* Flattening.  An entry is a schema-level element with the context it is  *)
(* read in: [n, rid, pfx, kt, item] - item = it is an item of the schema   *)
(* container (elements of an import/@src schema contribute types only).    *)
Entry(n, rid, pfx, kt, item) == [n |-> n, rid |-> rid, pfx |-> pfx, kt |-> kt, item |-> item]
Acc(es, seen, subs, crids) == [es |-> es, seen |-> seen, subs |-> subs, crids |-> crids]

RECURSIVE FlatDoc(_, _, _)
RECURSIVE FlatKids(_, _, _, _, _)
RECURSIVE FlatBases(_, _, _)

ImportSrc(n)  == StripOf(Get(n.a, "src", ""))
ImportPkg(n)  == StripOf(Get(n.a, "package", ""))
ImportFile(n) == StripOf(Get(n.a, "file", ""))

FlatKids(ks, rid, comp, items, acc) ==
  IF ks = <<>> THEN acc
  ELSE LET n == Head(ks)
           pfx == DocPfx(rid)
           next(a2) == FlatKids(Tail(ks), rid, comp, items, a2)
       IN
    IF n.tag = "import" THEN
       (IF ImportPkg(n) # "" /\ ImportSrc(n) = "" THEN
           LET pi == PkgOf(Cls(pfx, ImportPkg(n)), ImportFile(n)) IN
           IF ~HasDirPart(ImportFile(n)) /\ pi.ok /\ pi.url \notin acc.seen
           THEN next(FlatDoc(pi.rid, TRUE, Acc(acc.es, acc.seen \cup {pi.url}, acc.subs, acc.crids \cup {pi.rid})))
           ELSE next(acc)
        ELSE IF ImportSrc(n) # "" /\ ImportPkg(n) = "" /\ ImportFile(n) = "" THEN
           LET r == RefOf(rid, ImportSrc(n)) IN
           IF ~r.frag /\ r.rid # ""
           THEN LET sub == FlatDoc(r.rid, FALSE, Acc(<<>>, {}, {}, {}))
                    tys == SelectSeq(sub.es, LAMBDA e : e.n.tag \in TypeTags)
                IN next(Acc(acc.es \o [i \in DOMAIN tys |-> [tys[i] EXCEPT !.item = FALSE]], acc.seen,
                            acc.subs \cup {r.rid}, acc.crids))
           ELSE next(acc)
        ELSE next(acc))
    ELSE IF n.tag \in TypeTags
         THEN next(Acc(Append(acc.es, Entry(n, rid, pfx, "", FALSE)), acc.seen, acc.subs, acc.crids))
    ELSE IF n.tag \in ItemTags /\ ~comp
         THEN next(Acc(Append(acc.es, Entry(n, rid, pfx, DocKT(rid), items)), acc.seen, acc.subs, acc.crids))
    ELSE next(acc)

FlatBases(rids, i, acc) ==
  IF i > Len(rids) THEN acc
  ELSE IF rids[i] = "" THEN FlatBases(rids, i + 1, acc)
  ELSE FlatBases(rids, i + 1, FlatDoc(rids[i], FALSE, acc))

FlatDoc(rid, comp, acc) ==
  LET root == RootOf(rid)
      a1 == IF comp THEN acc ELSE FlatBases(BaseRids(rid), 1, acc)
  IN FlatKids(root.kids, rid, comp, TRUE, a1)

(* resources of the schema proper: the document and, transitively, its bases *)
RECURSIVE SchemaDocs(_)
SchemaDocs(rid) == {rid} \cup UNION {SchemaDocs(BaseRids(rid)[i]) : i \in {j \in DOMAIN BaseRids(rid) : BaseRids(rid)[j] # ""}}

-------------------------------------------------------------------------
(* Rules over the flattened sequence E.                                    *)
TypeIdx(E)  == {i \in DOMAIN E : E[i].n.tag \in TypeTags}
TName(E, i) == KeyNorm("basic-key", Get(E[i].n.a, "name", ""))
IsAbsT(E, i) == E[i].n.tag = "abstracttype"
KnownAt(E, p) == {TName(E, i) : i \in {j \in TypeIdx(E) : j <= p}}
DefOf(E, name, p) == CHOOSE i \in TypeIdx(E) : i <= p /\ TName(E, i) = name
HasDef(E, name, p) == \E i \in TypeIdx(E) : i <= p /\ TName(E, i) = name

TPfx(E, i) == LET p == Get(E[i].n.a, "prefix", "") IN
              IF p = "" THEN E[i].pfx ELSE IF IsRel(p) THEN E[i].pfx \o p ELSE p

ExtName(E, i) == KeyNorm("basic-key", E[i].n.a["extends"])
HasBase(E, i) == /\ E[i].n.tag = "sectiontype" /\ Has(E[i].n.a, "extends")
                 /\ ExtName(E, i) # Bad /\ HasDef(E, ExtName(E, i), i - 1)
BaseIdx(E, i) == DefOf(E, ExtName(E, i), i - 1)

RECURSIVE EffKT(_, _)
EffKT(E, i) == IF Has(E[i].n.a, "keytype") THEN DtCanon(Cls(TPfx(E, i), E[i].n.a["keytype"]))
               ELSE IF HasBase(E, i) /\ ~IsAbsT(E, BaseIdx(E, i)) THEN EffKT(E, BaseIdx(E, i))
               ELSE "basic-key"

(* an item as its container sees it: [key, attr, wild1, raw]               *)
IsKeyTag(m)  == m.tag \in {"key", "multikey"}
INameOf(m)   == IF IsKeyTag(m) THEN Get(m.a, "name", "") ELSE Get(m.a, "name", "*")
IAttrGiven(m) == Get(m.a, "attribute", "")
IKey(m, kt)  == LET nm == INameOf(m) IN
                IF nm \in {"*", "+"} THEN (IF IsKeyTag(m) THEN nm ELSE "") ELSE KeyNorm(kt, nm)
IAttr(m, kt) == IF IAttrGiven(m) # "" THEN IAttrGiven(m)
                ELSE IF INameOf(m) \in {"*", "+", ""} \/ KeyNorm(kt, INameOf(m)) = Bad THEN Bad
                ELSE AttrOf(KeyNorm(kt, INameOf(m)))
Defaults(m)  == KidsTagged(m, {"default"})
RawKeys(m)   == [i \in DOMAIN Defaults(m) |-> Get(Defaults(m)[i].a, "key", "")]
Distinct(s)  == \A i, j \in DOMAIN s : i # j => s[i] # s[j]
View(m, kt)  == [key |-> IKey(m, kt), attr |-> IAttr(m, kt),
                 wild1 |-> (m.tag = "key" /\ INameOf(m) = "+"),
                 wildm |-> (m.tag = "multikey" /\ INameOf(m) = "+"), raw |-> RawKeys(m)]

(* default keys of a '+' key are convertible and pairwise distinct under kt *)
KeyedOK(v, kt)   == (v.wild1 \/ v.wildm) => \A i \in DOMAIN v.raw : KeyNorm(kt, v.raw[i]) # Bad
KeyedDistinct(v, kt) == v.wild1 => Distinct([i \in DOMAIN v.raw |-> KeyNorm(kt, v.raw[i])])

ItemOK(m, kt, pfx, known) ==
  LET nm == INameOf(m)
      an == IAttrGiven(m)
  IN /\ nm # ""
     /\ an # "" => (IsIdent(an) /\ ~IsReserved(an))
     /\ nm \in {"*", "+"} => an # ""
     /\ nm \notin {"*", "+"} => (KeyNorm(kt, nm) # Bad /\ (an # "" \/ AttrOf(KeyNorm(kt, nm)) # Bad))
     /\ Has(m.a, "handler") => KeyNorm("basic-key", m.a["handler"]) # Bad
     /\ Has(m.a, "required") => m.a["required"] \in {"yes", "no"}
     /\ IsKeyTag(m) =>
          /\ nm # "*"
          /\ DtRefsOK(pfx, m.a, {"datatype"})
          /\ m.tag = "key" =>
               /\ ~(Has(m.a, "default") /\ Get(m.a, "required", "no") = "yes")
               /\ ~(Has(m.a, "default") /\ nm = "+")
               /\ nm # "+" => Defaults(m) = <<>>
               /\ nm = "+" => (/\ \A i \in DOMAIN Defaults(m) : Has(Defaults(m)[i].a, "key")
                               /\ Distinct(RawKeys(m)))
          /\ m.tag = "multikey" =>
               /\ ~Has(m.a, "default")
               /\ nm # "+" => \A i \in DOMAIN Defaults(m) : ~Has(Defaults(m)[i].a, "key")
               /\ nm = "+" => \A i \in DOMAIN Defaults(m) : Has(Defaults(m)[i].a, "key")
     /\ ~IsKeyTag(m) =>
          /\ Get(m.a, "type", "") # ""
          /\ LowerOf(Get(m.a, "type", "")) \in known
          /\ m.tag = "multisection" => nm \in {"*", "+"}

OwnItems(n) == KidsTagged(n, ItemTags)

(* all items of section type i as views: inherited ones first              *)
RECURSIVE AllViews(_, _)
AllViews(E, i) ==
  (IF HasBase(E, i) /\ ~IsAbsT(E, BaseIdx(E, i)) THEN AllViews(E, BaseIdx(E, i)) ELSE <<>>)
  \o [k \in DOMAIN OwnItems(E[i].n) |-> View(OwnItems(E[i].n)[k], EffKT(E, i))]

ViewsUnique(vs) == /\ \A i, j \in DOMAIN vs : (i # j /\ vs[i].key # "") => vs[i].key # vs[j].key
                   /\ \A i, j \in DOMAIN vs : i # j => vs[i].attr # vs[j].attr

TypeOK(E, i) ==
  LET n == E[i].n
      a == n.a
  IN /\ TName(E, i) # Bad
     /\ \A j \in TypeIdx(E) : j # i => TName(E, j) # TName(E, i)
     /\ n.tag = "sectiontype" =>
          /\ Has(a, "prefix") /\ a["prefix"] # "" => PfxRelOK(a["prefix"])
          /\ Has(a, "extends") => (/\ ExtName(E, i) # Bad /\ HasDef(E, ExtName(E, i), i - 1)
                                   /\ ~IsAbsT(E, BaseIdx(E, i)))
          /\ Has(a, "implements") =>
               LET ifn == KeyNorm("basic-key", a["implements"]) IN
               /\ ifn # Bad /\ HasDef(E, ifn, i) /\ IsAbsT(E, DefOf(E, ifn, i))
          /\ DtRefsOK(TPfx(E, i), a, {"keytype", "valuetype", "datatype"})
          /\ \A k \in DOMAIN OwnItems(n) : ItemOK(OwnItems(n)[k], EffKT(E, i), TPfx(E, i), KnownAt(E, i))
          /\ ViewsUnique(AllViews(E, i))
          /\ \A k \in DOMAIN AllViews(E, i) : /\ KeyedOK(AllViews(E, i)[k], EffKT(E, i))
                                              /\ KeyedDistinct(AllViews(E, i)[k], EffKT(E, i))

TopItemIdx(E) == {i \in DOMAIN E : E[i].n.tag \in ItemTags /\ E[i].item}
TopViews(E) == LET idx == SelectSeq([i \in DOMAIN E |-> i], LAMBDA i : i \in TopItemIdx(E))
               IN [k \in DOMAIN idx |-> View(E[idx[k]].n, E[idx[k]].kt)]
TopOK(E) ==
  /\ \A i \in TopItemIdx(E) : /\ ItemOK(E[i].n, E[i].kt, E[i].pfx, KnownAt(E, i))
                              /\ KeyedOK(View(E[i].n, E[i].kt), E[i].kt)
                              /\ KeyedDistinct(View(E[i].n, E[i].kt), E[i].kt)
  /\ ViewsUnique(TopViews(E))

-------------------------------------------------------------------------
(* Rules of one resource.                                                  *)
RECURSIVE ImportsOK(_, _)
ImportsOK(n, rid) ==
  /\ n.tag = "import" =>
       LET src == ImportSrc(n) pkg == ImportPkg(n) file == ImportFile(n) IN
       /\ (src # "") # (pkg # "")
       /\ src # "" => (file = "" /\ ~RefOf(rid, src).frag /\ RefOf(rid, src).rid # "")
       /\ pkg # "" => (~HasDirPart(file) /\ PkgOf(Cls(DocPfx(rid), pkg), file).ok)
  /\ \A i \in DOMAIN n.kids : ImportsOK(n.kids[i], rid)

SchemaDocOK(rid) ==
  LET root == RootOf(rid) a == root.a IN
  /\ root.tag = "schema"
  /\ NestOK(root) /\ OnceOK(root, FALSE) /\ ImportsOK(root, rid)
  /\ DocPfx(rid) # "" => PfxAbsOK(DocPfx(rid))
  /\ Has(a, "handler") => KeyNorm("basic-key", a["handler"]) # Bad
  /\ DtRefsOK(DocPfx(rid), a, {"keytype", "valuetype", "datatype"})
  /\ \A i \in DOMAIN BaseRefs(rid) : ~RefOf(rid, BaseRefs(rid)[i]).frag /\ BaseRids(rid)[i] # ""
  /\ (~Has(a, "keytype") /\ BaseRids(rid) # <<>>) => \A i \in DOMAIN BaseRids(rid) : DocKT(BaseRids(rid)[i]) = DocKT(BaseRids(rid)[1])
  /\ (~Has(a, "datatype") /\ BaseRids(rid) # <<>>) => \A i \in DOMAIN BaseRids(rid) : DocDT(BaseRids(rid)[i]) = DocDT(BaseRids(rid)[1])

ComponentDocOK(rid) ==
  LET root == RootOf(rid) IN
  /\ root.tag = "component"
  /\ NestOK(root) /\ OnceOK(root, TRUE) /\ ImportsOK(root, rid)
  /\ DocPfx(rid) # "" => PfxAbsOK(DocPfx(rid))

RECURSIVE WellFormed(_)
WellFormed(rid) ==
  LET fl == FlatDoc(rid, FALSE, Acc(<<>>, {}, {}, {}))
      E  == fl.es
      docs == SchemaDocs(rid)
  IN /\ \A d \in docs : SchemaDocOK(d)
     /\ Cardinality({d \in docs : CountTag(RootOf(d), "example") > 0}) <= 1
     /\ \A d \in docs : CountTag(RootOf(d), "example") <= 1
     /\ \A s \in fl.subs : WellFormed(s)
     /\ \A c \in fl.crids : ComponentDocOK(c)
     /\ \A i \in TypeIdx(E) : TypeOK(E, i)
     /\ TopOK(E)
=========================================================================
