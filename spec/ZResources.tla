---------------------------- MODULE ZResources ----------------------------
(* The resource discipline of a load (C19), independent of what is being   *)
(* loaded: schema documents with base schemas and components, or           *)
(* configurations with included resources and imported components.         *)
(*                                                                         *)
(*   StreamOpen(u)   a URL is opened (urlopen)                             *)
(*   StreamClose(u)  the URL stream is closed - the very next thing that   *)
(*                   happens after StreamOpen(u): the content is read at   *)
(*                   once and the stream closed before anything is parsed  *)
(*   Open(u)         a resource object for u starts to be used             *)
(*   Close(u)        it is closed; resources nest, so it is the innermost  *)
(*   Finish          the call returns or raises: nothing is open any more  *)
(* A recorded execution is accepted iff it is a behaviour of this machine. *)
EXTENDS Naturals, Sequences, TLC, Json, IOUtils

CONSTANT NTr
VARIABLES tid, pos, stack, stream, verdict
rvars == <<tid, pos, stack, stream, verdict>>

Traces == JsonDeserialize(IOEnv.TRACE_FILE).traces
Ev     == Traces[tid].events

Init == \E t \in 1..NTr : tid = t /\ pos = 0 /\ stack = <<>> /\ stream = "" /\ verdict = "run"

E == Ev[pos + 1]
More == verdict = "run" /\ pos < Len(Ev)
Adv  == pos' = pos + 1 /\ UNCHANGED tid

StreamOpen  == /\ More /\ E[1] = "stream-open"
               /\ IF stream = "" THEN stream' = E[2] /\ UNCHANGED verdict
                  ELSE verdict' = "stream-left-open-while-another-is-opened" /\ UNCHANGED stream
               /\ UNCHANGED stack /\ Adv
StreamClose == /\ More /\ E[1] = "stream-close"
               /\ IF stream = E[2] THEN stream' = "" /\ UNCHANGED verdict
                  ELSE verdict' = "stream-closed-that-was-not-open" /\ UNCHANGED stream
               /\ UNCHANGED stack /\ Adv
Open        == /\ More /\ E[1] = "open"
               /\ IF stream = "" THEN stack' = Append(stack, E[2]) /\ UNCHANGED verdict
                  ELSE verdict' = "stream-not-closed-as-soon-as-read" /\ UNCHANGED stack
               /\ UNCHANGED stream /\ Adv
Close       == /\ More /\ E[1] = "close"
               /\ IF stack # <<>> /\ stack[Len(stack)] = E[2]
                  THEN stack' = SubSeq(stack, 1, Len(stack) - 1) /\ UNCHANGED verdict
                  ELSE verdict' = "close-out-of-order" /\ UNCHANGED stack
               /\ UNCHANGED stream /\ Adv
Finish      == /\ verdict = "run" /\ pos = Len(Ev)
               /\ verdict' = IF stack # <<>> THEN "resource-left-open"
                             ELSE IF stream # "" THEN "stream-left-open"
                             ELSE IF ~Traces[tid].allclosed THEN "resource-object-reports-not-closed"
                             ELSE "accepted"
               /\ UNCHANGED <<tid, pos, stack, stream>>

Next == StreamOpen \/ StreamClose \/ Open \/ Close \/ Finish
Spec == Init /\ [][Next]_rvars

(* Design: nothing is ever open twice at the same nesting position, and an *)
(* accepted trace ends with nothing open.                                  *)
AcceptedMeansClosed == verdict = "accepted" => stack = <<>> /\ stream = ""
Verdict == verdict # "run" => PrintT(ToJson([tid |-> tid, clause |-> verdict, at |-> pos]))
=========================================================================
