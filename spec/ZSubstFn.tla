---------------------------- MODULE ZSubstFn ----------------------------
(* $-substitution, declarative side (property C04; also used by ZLines and *)
(* ZLoad for values, %define, %include and %import arguments).  The        *)
(* operational side - the scanner machine - is module ZSubst, and TLC      *)
(* checks there that the two agree.                                        *)
(*                                                                         *)
(* Two formulations of the same function:                                  *)
(*   - operational: the scanner loop of ZConfig.substitution.substitute /  *)
(*     _split, one action per kind of loop iteration, with the slice       *)
(*     arithmetic of the code (find the first "$", look at the next        *)
(*     character, match a name at an offset, cut the rest);                *)
(*   - declarative: the maximal-munch token list of the string and the     *)
(*     replacement of each token (Tokens / Eval), which never looks at     *)
(*     offsets.                                                            *)
(* TLC checks that they agree on every string of the bounded instance and  *)
(* emits each terminal state; the harness replays them on the real code.   *)
EXTENDS ZChars, TLC, Json

NameStart(c) == c \in Letters \/ c = "_"
NameChar(c)  == NameStart(c) \/ c \in Digits

RECURSIVE NameRun(_, _)
NameRun(s, p) == IF p > Len(s) \/ ~NameChar(s[p]) THEN 0 ELSE 1 + NameRun(s, p + 1)
(* Length of the maximal name starting at position p of s, 0 if none.      *)
NameLen(s, p) == IF p >= 1 /\ p <= Len(s) /\ NameStart(s[p]) THEN NameRun(s, p) ELSE 0

IsName(s) == s # <<>> /\ NameLen(s, 1) = Len(s)

-------------------------------------------------------------------------
(* Lookups.  A scenario carries the kind of mapping / environment:         *)
(*   mk = "none"  nothing defined                                          *)
(*        "all"   every lower-case name n has the value "[n]$a${b}$$";     *)
(*                (the harness additionally maps every name as written,    *)
(*                when it differs from its lower-case form, to "WRONG")    *)
(*        "part"  as "all" for names starting with "a"; names starting     *)
(*                with "_" are mapped to None; the others are absent       *)
(*        "table" explicit table mtab: sequence of <<name, has, value>>    *)
(*   ek = "none" | "set" (NAME has the value "E{NAME}$$", other spellings  *)
(*        of NAME hold "WRONGENV") | "empty" (NAME is defined and its      *)
(*        value is the empty string: a value like any other) | "table"     *)
Missing  == [has |-> FALSE, v |-> ""]
Found(v) == [has |-> TRUE, v |-> v]

(* Where a scenario keeps its source text and tables (overridden by the     *)
(* trace specification, which keeps them in the trace file, not the state). *)
SrcOf(s)  == s.src
MTabOf(s) == s.mtab
ETabOf(s) == s.etab

RECURSIVE TabLookup(_, _)
TabLookup(tab, n) == IF tab = <<>> THEN Missing
                     ELSE IF tab[1][1] = n
                          THEN (IF tab[1][2] THEN Found(tab[1][3]) ELSE Missing)
                          ELSE TabLookup(Tail(tab), n)

MapVal(sc, lname) ==
  CASE sc.mk = "none"  -> Missing
    [] sc.mk = "all"   -> Found("[" \o Str(lname) \o "]$a${b}$$")
    [] sc.mk = "part"  -> IF lname[1] = "a" THEN Found("[" \o Str(lname) \o "]$a${b}$$")
                          ELSE Missing
    [] sc.mk = "table" -> TabLookup(MTabOf(sc), Str(lname))

EnvVal(sc, name) ==
  CASE sc.ek = "none"  -> Missing
    [] sc.ek = "set"   -> Found("E{" \o Str(name) \o "}$$")
    [] sc.ek = "empty" -> Found("")
    [] sc.ek = "table" -> TabLookup(ETabOf(sc), Str(name))

-------------------------------------------------------------------------
(* Declarative side: token list by maximal munch, then replacement.        *)
(* Token kinds: lit(c), esc, ref(n) for $n and ${n}, env(n), bad.          *)
RECURSIVE Tokens(_)
Tokens(s) ==
  IF s = <<>> THEN <<>>
  ELSE IF Head(s) # "$" THEN <<[k |-> "lit", c |-> Head(s)]>> \o Tokens(Tail(s))
  ELSE IF Len(s) = 1 THEN <<[k |-> "bad"]>>
  ELSE LET c == s[2] IN
       IF c = "$" THEN <<[k |-> "esc"]>> \o Tokens(From(s, 3))
       ELSE IF c \in {"{", "("} THEN
            LET n     == NameLen(s, 3)
                close == IF c = "{" THEN "}" ELSE ")"
            IN  IF n = 0 \/ 3 + n > Len(s) \/ s[3 + n] # close THEN <<[k |-> "bad"]>>
                ELSE <<[k |-> IF c = "{" THEN "ref" ELSE "env", n |-> Sub(s, 3, 2 + n)]>>
                     \o Tokens(From(s, 4 + n))
       ELSE LET n == NameLen(s, 2)
            IN  IF n = 0 THEN <<[k |-> "bad"]>>
                ELSE <<[k |-> "ref", n |-> Sub(s, 2, 1 + n)]>> \o Tokens(From(s, 2 + n))

(* Outcomes are records [r, v, name]: r = "ok" with the result string v,   *)
(* "syn" (substitution syntax error) or "miss" (replacement error carrying *)
(* the name as written, a sequence of characters).                         *)
Ok(v)      == [r |-> "ok", v |-> v, name |-> <<>>]
Syn        == [r |-> "syn", v |-> "", name |-> <<>>]
Miss(name) == [r |-> "miss", v |-> "", name |-> name]

RECURSIVE Eval(_, _, _)
Eval(sc, toks, acc) ==
  IF toks = <<>> THEN Ok(acc)
  ELSE LET t == Head(toks) IN
    CASE t.k = "lit" -> Eval(sc, Tail(toks), acc \o t.c)
      [] t.k = "esc" -> Eval(sc, Tail(toks), acc \o "$")
      [] t.k = "bad" -> Syn
      [] t.k = "ref" -> LET l == MapVal(sc, LowerSeq(t.n))
                        IN  IF l.has THEN Eval(sc, Tail(toks), acc \o l.v) ELSE Miss(t.n)
      [] t.k = "env" -> LET l == EnvVal(sc, t.n)
                        IN  IF l.has THEN Eval(sc, Tail(toks), acc \o l.v) ELSE Miss(t.n)

Replacement(sc) == Eval(sc, Tokens(SrcOf(sc)), "")
=========================================================================
