---------------------------- MODULE ZSchemaStable ----------------------------
(* A schema is a value that loads read and never write (property C13, the  *)
(* clause "the schema's own description is the same after any such         *)
(* sequence as before it"), as a specification of recorded executions:     *)
(* each record holds the description of ONE application schema object -    *)
(* types, keys, defaults (`rest`) and the implementers of its abstract     *)
(* types (`impl`) - taken immediately before and immediately after one     *)
(* outermost loading call made with it.  The only step a load may take is  *)
(*        Load:  app' = app                                                *)
(* so a record is a behaviour of the specification iff the two             *)
(* descriptions are equal.  What differs is named: the implementer table   *)
(* growing is the shape of the known finding D9.                           *)
EXTENDS Naturals, Sequences, TLC, Json, IOUtils

CONSTANT NTr
VARIABLES tid, app, verdict
svars == <<tid, app, verdict>>

Traces == JsonDeserialize(IOEnv.TRACE_FILE).traces

ImplSet(d) == UNION {{<<d.impl[i][1], d.impl[i][2][j]>> : j \in DOMAIN d.impl[i][2]} : i \in DOMAIN d.impl}
Describe(d) == [rest |-> d.rest, impl |-> ImplSet(d)]

Init == \E t \in 1..NTr : tid = t /\ app = Describe(Traces[t].before) /\ verdict = "run"

(* the specification's own step: a load leaves the schema alone *)
Load == /\ verdict = "run"
        /\ app' = app
        /\ LET seen == Describe(Traces[tid].after) IN
           verdict' = IF seen = app' THEN "accepted"
                      ELSE IF seen.rest # app'.rest THEN "schema-changed"
                      ELSE IF app'.impl \subseteq seen.impl THEN "implementers-grew"
                      ELSE "implementers-changed"
        /\ UNCHANGED tid

Next == Load
Spec == Init /\ [][Next]_svars

SchemaUnchanged == [][app' = app]_svars
Verdict == verdict # "run" => PrintT(ToJson([tid |-> tid, clause |-> verdict]))
=========================================================================
