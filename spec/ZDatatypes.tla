---------------------------- MODULE ZDatatypes ----------------------------
(* The standard datatypes (property C09).                                  *)
(*                                                                         *)
(* For each datatype of ZConfig.datatypes.stock_datatypes that has a       *)
(* contract in the documentation, two formulations over sequences of       *)
(* characters:                                                             *)
(*   Conv(dt, s)      transcription of the code's case analysis (the       *)
(*                    prefix-match-then-compare discipline of the regular  *)
(*                    expression conversions, the rsplit / bracket logic   *)
(*                    of inet addresses, the suffix tables, ...);          *)
(*   Contract(dt, s, r)  what the documentation promises about a result r. *)
(* TLC checks Contract(dt, s, Conv(dt, s)) for every enumerated string and *)
(* emits (dt, s, Conv(dt, s)) for replay on the registry's converter.      *)
(*                                                                         *)
(* Results: [ok |-> TRUE, v |-> value] | [ok |-> FALSE, exc |-> "ValueError" *)
(* | "TypeError"].  Values are strings / sequences (never machine          *)
(* integers: TLC integers are 32-bit): an integer is its canonical decimal *)
(* string, a product is kept as <<decimal string, multiplier name>>.       *)
(* int() of Python (surrounding white space, sign, digits, single          *)
(* underscores between digits) is specified here for the ASCII alphabets   *)
(* used; float(), inet_pton(), locale and the file system are environment. *)
EXTENDS ZChars, FiniteSets, TLC, Json

CONSTANTS ValidV6,      \* environment: the enumerated strings socket.inet_pton(AF_INET6, .) accepts
          FloatOK       \* environment: the enumerated strings float() accepts

Bad(exc) == [ok |-> FALSE, exc |-> exc]
Good(v)  == [ok |-> TRUE, v |-> v]
VErr     == Bad("ValueError")

-------------------------------------------------------------------------
(* Regular-expression conversions.  The code matches a *prefix* with the   *)
(* pattern and accepts iff the matched prefix is the whole value.  For the *)
(* patterns below the greedy prefix is computed by the scanners.           *)
IdStart(c) == c \in Letters \/ c = "_"
IdChar(c)  == IdStart(c) \/ c \in Digits
KeyChar(c) == c \in Letters \/ c \in Digits \/ c \in {"-", ".", "_"}

(* length of the maximal run of characters of a class, from position p *)
RECURSIVE RunKey(_, _)
RunKey(s, p) == IF p > Len(s) \/ ~KeyChar(s[p]) THEN 0 ELSE 1 + RunKey(s, p + 1)
RECURSIVE RunId(_, _)
RunId(s, p) == IF p > Len(s) \/ ~IdChar(s[p]) THEN 0 ELSE 1 + RunId(s, p + 1)

(* [a-zA-Z][-._a-zA-Z0-9]* : matched prefix length *)
BasicKeyPrefix(s) == IF s # <<>> /\ s[1] \in Letters THEN 1 + RunKey(s, 2) ELSE 0
BasicKey(s) == IF BasicKeyPrefix(s) > 0 /\ BasicKeyPrefix(s) = Len(s) THEN Good(LowerSeq(s)) ELSE VErr

IdentAt(s, p) == IF p <= Len(s) /\ IdStart(s[p]) THEN 1 + RunId(s, p + 1) ELSE 0
Identifier(s) == IF IdentAt(s, 1) > 0 /\ IdentAt(s, 1) = Len(s) THEN Good(s) ELSE VErr

(* ident(\.ident)* : greedy; a trailing "." that is not followed by an     *)
(* identifier is not consumed.                                             *)
RECURSIVE DottedTail(_, _)
DottedTail(s, p) ==   \* p = position after an identifier; how much more of (\.ident)* matches
  IF p <= Len(s) /\ s[p] = "." /\ IdentAt(s, p + 1) > 0
  THEN 1 + IdentAt(s, p + 1) + DottedTail(s, p + 1 + IdentAt(s, p + 1))
  ELSE 0
DottedNamePrefix(s) == IF IdentAt(s, 1) > 0 THEN IdentAt(s, 1) + DottedTail(s, 1 + IdentAt(s, 1)) ELSE 0
DottedName(s) == IF DottedNamePrefix(s) > 0 /\ DottedNamePrefix(s) = Len(s) THEN Good(s) ELSE VErr

(* (ident)(\.ident)* | (\.ident)+ : first alternative tried first.         *)
DottedSuffixPrefix(s) == IF DottedNamePrefix(s) > 0 THEN DottedNamePrefix(s) ELSE DottedTail(s, 1)
DottedSuffix(s) == IF DottedSuffixPrefix(s) > 0 /\ DottedSuffixPrefix(s) = Len(s) THEN Good(s) ELSE VErr

(* Declarative shapes (what the documentation says).                        *)
IsIdent(s) == s # <<>> /\ IdStart(s[1]) /\ \A i \in 2..Len(s) : IdChar(s[i])
(* split at dots *)
RECURSIVE SplitDots(_)
SplitDots(s) == LET p == IndexOf(s, ".") IN IF p = 0 THEN <<s>> ELSE <<Sub(s, 1, p - 1)>> \o SplitDots(From(s, p + 1))
IsDottedName(s) == \A i \in 1..Len(SplitDots(s)) : IsIdent(SplitDots(s)[i])
IsDottedSuffix(s) == \/ IsDottedName(s)
                     \/ (s # <<>> /\ s[1] = "." /\ IsDottedName(From(s, 2)))
IsBasicKey(s) == s # <<>> /\ s[1] \in Letters /\ \A i \in 2..Len(s) : KeyChar(s[i])

-------------------------------------------------------------------------
(* boolean *)
Yes == {<<"y","e","s">>, <<"t","r","u","e">>, <<"o","n">>}
No  == {<<"n","o">>, <<"f","a","l","s","e">>, <<"o","f","f">>}
Boolean(s) == IF LowerSeq(s) \in Yes THEN Good("True") ELSE IF LowerSeq(s) \in No THEN Good("False") ELSE VErr

-------------------------------------------------------------------------
(* int(): optional white space, optional sign, digits with single          *)
(* underscores between digits, optional white space.  Value = canonical    *)
(* decimal string.                                                         *)
RECURSIVE DigitsOK(_, _)
DigitsOK(s, prevdigit) ==      \* s non-empty sequence of digits and "_" where "_" only between digits
  IF s = <<>> THEN prevdigit
  ELSE IF s[1] \in Digits THEN DigitsOK(Tail(s), TRUE)
  ELSE IF s[1] = "_" THEN prevdigit /\ Len(s) > 1 /\ s[2] \in Digits /\ DigitsOK(Tail(s), FALSE)
  ELSE FALSE
RECURSIVE DropUnderscores(_)
DropUnderscores(s) == IF s = <<>> THEN <<>> ELSE IF s[1] = "_" THEN DropUnderscores(Tail(s)) ELSE <<s[1]>> \o DropUnderscores(Tail(s))
RECURSIVE DropZeros(_)
DropZeros(s) == IF Len(s) > 1 /\ s[1] = "0" THEN DropZeros(Tail(s)) ELSE s

IntOf(raw) ==
  LET s    == Strip(raw)
      neg  == s # <<>> /\ s[1] = "-"
      body == IF s # <<>> /\ s[1] \in {"+", "-"} THEN Tail(s) ELSE s
  IN  IF body = <<>> \/ ~DigitsOK(body, FALSE) THEN VErr
      ELSE LET d == DropZeros(DropUnderscores(body))
           IN  Good([neg |-> neg /\ d # <<"0">>, digits |-> d])

IntRepr(i) == (IF i.neg THEN "-" ELSE "") \o Str(i.digits)
Integer(s) == LET r == IntOf(s) IN IF r.ok THEN Good(IntRepr(r.v)) ELSE VErr

(* comparison of canonical digit strings *)
DigitSeq == <<"0","1","2","3","4","5","6","7","8","9">>
DVal(c)  == CHOOSE k \in 1..10 : DigitSeq[k] = c
RECURSIVE LexLE(_, _)
LexLE(a, b) == IF a = <<>> THEN TRUE
               ELSE IF a[1] # b[1] THEN DVal(a[1]) < DVal(b[1])
               ELSE LexLE(Tail(a), Tail(b))
DigitsLE(a, b) == Len(a) < Len(b) \/ (Len(a) = Len(b) /\ LexLE(a, b))
Max16 == <<"6","5","5","3","5">>

PortNumber(s) == LET r == IntOf(s) IN
                 IF ~r.ok THEN VErr
                 ELSE IF r.v.neg THEN VErr                                   \* below lower bound
                 ELSE IF ~DigitsLE(r.v.digits, Max16) THEN VErr              \* above upper bound
                 ELSE Good(IntRepr(r.v))

-------------------------------------------------------------------------
(* SuffixMultiplier: lower-case; the first suffix of the table that equals *)
(* the last keysz characters decides (a shorter string is compared whole). *)
LastN(s, n) == IF Len(s) <= n THEN s ELSE From(s, Len(s) - n + 1)
ButLastN(s, n) == IF Len(s) <= n THEN <<>> ELSE Sub(s, 1, Len(s) - n)

ByteTable == << <<<<"k","b">>, "1024">>, <<<<"m","b">>, "1048576">>, <<<<"g","b">>, "1073741824">> >>
TimeTable == << <<<<"s">>, "1">>, <<<<"m">>, "60">>, <<<<"h">>, "3600">>, <<<<"d">>, "86400">> >>

RECURSIVE Suffixed(_, _, _, _)
Suffixed(v, table, i, keysz) ==
  IF i > Len(table)
  THEN (LET r == IntOf(v) IN IF r.ok THEN Good(<<IntRepr(r.v), "1">>) ELSE VErr)
  ELSE IF LastN(v, keysz) = table[i][1]
       THEN (LET r == IntOf(ButLastN(v, keysz)) IN IF r.ok THEN Good(<<IntRepr(r.v), table[i][2]>>) ELSE VErr)
       ELSE Suffixed(v, table, i + 1, keysz)
ByteSize(s)     == Suffixed(LowerSeq(s), ByteTable, 1, 2)
TimeInterval(s) == Suffixed(LowerSeq(s), TimeTable, 1, 1)

-------------------------------------------------------------------------
(* string-list: s.split() *)
RECURSIVE Words(_)
Words(s) == LET t == LStrip(s) IN
            IF t = <<>> THEN <<>>
            ELSE LET n == (CHOOSE k \in 1..Len(t) : (\A i \in 1..k : ~IsSpace(t[i])) /\ (k = Len(t) \/ IsSpace(t[k + 1])))
                 IN  <<Str(Sub(t, 1, n))>> \o Words(From(t, n + 1))
StringList(s) == Good(Words(s))

-------------------------------------------------------------------------
(* inet addresses: (host, port); port "None" when absent.                  *)
RECURSIVE LastIndexOf(_, _, _)
LastIndexOf(s, c, p) == IF p = 0 THEN 0 ELSE IF s[p] = c THEN p ELSE LastIndexOf(s, c, p - 1)

InetAddress(default, s) ==
  IF Has(s, ":") THEN
     LET k    == LastIndexOf(s, ":", Len(s))
         h0   == Sub(s, 1, k - 1)
         p0   == From(s, k + 1)
         br   == h0 # <<>> /\ h0[1] = "[" /\ h0[Len(h0)] = "]"
         host == IF br THEN Sub(h0, 2, Len(h0) - 1) ELSE IF Has(h0, ":") THEN s ELSE h0
         p    == IF ~br /\ Has(h0, ":") THEN <<>> ELSE p0
         port == IF p = <<>> THEN Good("None") ELSE PortNumber(p)
     IN  IF ~port.ok THEN VErr
         ELSE LET h == LowerSeq(host) IN Good(<<IF h = <<>> THEN default ELSE Str(h), port.v>>)
  ELSE LET port == PortNumber(s) IN
       IF port.ok THEN Good(<<default, port.v>>)
       ELSE IF Len(Words(s)) # 1 THEN VErr
       ELSE Good(<<Str(LowerSeq(s)), "None">>)

(* socket addresses: family and address *)
InetHost(s) ==     \* the host characters InetAddress settles on (before defaulting)
  IF Has(s, ":") THEN
     LET k  == LastIndexOf(s, ":", Len(s))
         h0 == Sub(s, 1, k - 1)
         br == h0 # <<>> /\ h0[1] = "[" /\ h0[Len(h0)] = "]"
     IN  IF br THEN Sub(h0, 2, Len(h0) - 1) ELSE IF Has(h0, ":") THEN s ELSE h0
  ELSE <<>>
HostHasColon(default, s) == Has(InetHost(s), ":")
SocketAddress(default, s) ==
  IF Has(s, "/") THEN Good(<<"AF_UNIX", Str(s)>>)
  ELSE LET a == InetAddress(default, s) IN
       IF ~a.ok THEN VErr
       ELSE Good(<<IF Has(LowerSeq(s), ":") /\ HostHasColon(default, s) THEN "AF_INET6" ELSE "AF_INET", a.v>>)

-------------------------------------------------------------------------
(* ipaddr-or-hostname.  Pattern alternatives, tried in order on a prefix:  *)
(*   1  ^ q.q.q.q $  with q = \d | [01]?\d\d | 2[0-4]\d | 25[0-5]          *)
(*   2  [A-Za-z_][-A-Za-z0-9_.]*[-A-Za-z0-9_]                              *)
(*   3  [0-9A-Fa-f:.]+:[0-9A-Fa-f:.]*                                      *)
(* then the value is lower-cased and, if it contains ":", must be an IPv6  *)
(* address (environment ValidV6).                                          *)
IsQuad(q) == \/ Len(q) = 1 /\ q[1] \in Digits
             \/ Len(q) = 2 /\ q[1] \in Digits /\ q[2] \in Digits
             \/ Len(q) = 3 /\ q[1] \in {"0", "1"} /\ q[2] \in Digits /\ q[3] \in Digits
             \/ Len(q) = 3 /\ q[1] = "2" /\ q[2] \in {"0","1","2","3","4"} /\ q[3] \in Digits
             \/ Len(q) = 3 /\ q[1] = "2" /\ q[2] = "5" /\ q[3] \in {"0","1","2","3","4","5"}
IsIPv4(s) == LET p == SplitDots(s) IN Len(p) = 4 /\ \A i \in 1..4 : IsQuad(p[i])

HostFirst(c) == c \in Letters \/ c = "_"
HostMid(c)   == c \in Letters \/ c \in Digits \/ c \in {"-", "_", "."}
HostLast(c)  == c \in Letters \/ c \in Digits \/ c \in {"-", "_"}
RECURSIVE RunHostMid(_, _)
RunHostMid(s, p) == IF p > Len(s) \/ ~HostMid(s[p]) THEN 0 ELSE 1 + RunHostMid(s, p + 1)
(* longest prefix matched by alternative 2 (greedy middle, then backtrack  *)
(* to the last position whose character can end a host name)               *)
HostPrefix(s) ==
  IF s = <<>> \/ ~HostFirst(s[1]) THEN 0
  ELSE LET n == 1 + RunHostMid(s, 2)
           E == {k \in 2..n : HostLast(s[k])}
       IN  IF E = {} THEN 0 ELSE CHOOSE k \in E : \A j \in E : j <= k
IsHostName(s) == Len(s) >= 2 /\ HostFirst(s[1]) /\ HostLast(s[Len(s)]) /\ \A i \in 2..Len(s) - 1 : HostMid(s[i])

V6Char(c) == c \in Digits \/ c \in HexLetters \/ c \in {":", "."}
RECURSIVE RunV6(_, _)
RunV6(s, p) == IF p > Len(s) \/ ~V6Char(s[p]) THEN 0 ELSE 1 + RunV6(s, p + 1)
(* alternative 3 matches a prefix iff the maximal run of V6 characters     *)
(* contains ":" after at least one character; it then matches the whole run *)
V6Prefix(s) == LET n == RunV6(s, 1)
               IN  IF \E k \in 2..n : s[k] = ":" THEN n ELSE 0

(* `fullmatch`: the value is accepted by the first alternative that         *)
(* matches it entirely (the code as repaired; the prefix-match discipline   *)
(* of the unrepaired code differs exactly when alternative 2 matches a      *)
(* proper prefix of an IPv6 address, DESIGN D7).                            *)
IpaddrOrHostname(s) ==
  LET okshape == IsIPv4(s) \/ (HostPrefix(s) = Len(s) /\ Len(s) > 0) \/ (V6Prefix(s) = Len(s) /\ Len(s) > 0)
      low     == LowerSeq(s)
  IN  IF ~okshape THEN VErr
      ELSE IF Has(low, ":") /\ Str(low) \notin ValidV6 THEN VErr
      ELSE Good(Str(low))

-------------------------------------------------------------------------
(* timedelta: blank-separated parts <float><unit>; a unit given twice      *)
(* keeps the last value; unknown unit letter -> TypeError.                 *)
Units == {"w", "d", "h", "m", "s"}
RECURSIVE WordSeqs(_)
WordSeqs(s) == LET t == LStrip(s) IN
               IF t = <<>> THEN <<>>
               ELSE LET n == (CHOOSE k \in 1..Len(t) : (\A i \in 1..k : ~IsSpace(t[i])) /\ (k = Len(t) \/ IsSpace(t[k + 1])))
                    IN  <<Sub(t, 1, n)>> \o WordSeqs(From(t, n + 1))
RECURSIVE TDFold(_, _)
TDFold(ws, acc) ==
  IF ws = <<>> THEN Good(acc)
  ELSE LET p    == ws[1]
           num  == Sub(p, 1, Len(p) - 1)
           unit == p[Len(p)]
       IN  IF Str(num) \notin FloatOK THEN VErr                   \* float(part[:-1]) comes first
           ELSE IF unit \notin Units THEN Bad("TypeError")
           ELSE TDFold(Tail(ws), [acc EXCEPT ![unit] = Str(num)])
TimeDelta(s) == TDFold(WordSeqs(s), [u \in Units |-> "0"])

-------------------------------------------------------------------------
Conv(dt, s) ==
  CASE dt = "basic-key"     -> (LET r == BasicKey(s) IN IF r.ok THEN Good(Str(r.v)) ELSE r)
    [] dt = "identifier"    -> (LET r == Identifier(s) IN IF r.ok THEN Good(Str(r.v)) ELSE r)
    [] dt = "dotted-name"   -> (LET r == DottedName(s) IN IF r.ok THEN Good(Str(r.v)) ELSE r)
    [] dt = "dotted-suffix" -> (LET r == DottedSuffix(s) IN IF r.ok THEN Good(Str(r.v)) ELSE r)
    [] dt = "boolean"       -> Boolean(s)
    [] dt = "integer"       -> Integer(s)
    [] dt = "port-number"   -> PortNumber(s)
    [] dt = "byte-size"     -> ByteSize(s)
    [] dt = "time-interval" -> TimeInterval(s)
    [] dt = "string-list"   -> StringList(s)
    [] dt = "inet-address"            -> InetAddress("", s)
    [] dt = "inet-binding-address"    -> InetAddress("", s)
    [] dt = "inet-connection-address" -> InetAddress("127.0.0.1", s)
    [] dt = "socket-address"            -> SocketAddress("", s)
    [] dt = "socket-binding-address"    -> SocketAddress("", s)
    [] dt = "socket-connection-address" -> SocketAddress("127.0.0.1", s)
    [] dt = "ipaddr-or-hostname" -> IpaddrOrHostname(s)
    [] dt = "timedelta"     -> TimeDelta(s)
    [] dt = "string"        -> Good(Str(s))
    [] dt = "null"          -> Good(Str(s))

-------------------------------------------------------------------------
(* The documented contracts, as predicates on (input, result).             *)
Contract(dt, s, r) ==
  CASE dt = "basic-key"     -> (r.ok <=> IsBasicKey(s)) /\ (r.ok => r.v = Str(LowerSeq(s)))
    [] dt = "identifier"    -> (r.ok <=> IsIdent(s)) /\ (r.ok => r.v = Str(s))
    [] dt = "dotted-name"   -> (r.ok <=> IsDottedName(s)) /\ (r.ok => r.v = Str(s))
    [] dt = "dotted-suffix" -> (r.ok <=> IsDottedSuffix(s)) /\ (r.ok => r.v = Str(s))
    [] dt = "boolean"       -> r.ok <=> (LowerSeq(s) \in Yes \cup No)
    [] dt = "port-number"   -> r.ok => (LET i == IntOf(s) IN i.ok /\ ~i.v.neg /\ DigitsLE(i.v.digits, Max16))
    [] dt = "byte-size"     -> r.ok => r.v[2] \in {"1", "1024", "1048576", "1073741824"}
    [] dt = "time-interval" -> r.ok => r.v[2] \in {"1", "60", "3600", "86400"}
    [] dt \in {"inet-address", "inet-binding-address", "inet-connection-address"} ->
         r.ok => /\ (\A i \in 1..Len(s) : TRUE)
                 /\ (r.v[1] = "" => dt # "inet-connection-address")       \* the documented default host
    [] dt = "ipaddr-or-hostname" ->
         /\ (r.ok => r.v = Str(LowerSeq(s)))
         /\ (r.ok <=> (IsIPv4(s) \/ IsHostName(s) \/ Str(LowerSeq(s)) \in ValidV6))
    [] OTHER -> TRUE

(* Converters used to normalise keys are idempotent: converting a result    *)
(* again gives the same result.                                            *)
KeyTypes == {"basic-key", "identifier"}
RawKey(dt, s) == IF dt = "basic-key" THEN BasicKey(s) ELSE Identifier(s)
KeyConvIdempotent(dt, s) == dt \in KeyTypes => LET r == RawKey(dt, s) IN r.ok => RawKey(dt, r.v) = r
=========================================================================
