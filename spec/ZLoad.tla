------------------------------ MODULE ZLoad ------------------------------
(* The loader as a state machine in "feed" form: the environment appends   *)
(* one line of the schema's vocabulary at a time to a single resource and  *)
(* the machine takes the step the code takes for that line (ZLoadFn); the  *)
(* environment may end the text at any point.  A failed load is final, so  *)
(* TLC explores every text over the vocabulary up to the line bound whose  *)
(* proper prefixes are all accepted so far - exactly the texts on which    *)
(* the loader's decisions differ.                                          *)
(* Properties checked in every reachable state: C01 (accepted iff the text *)
(* conforms), C02 (the tree is the value tree), C16 (handler list).        *)
EXTENDS ZConform

CONSTANTS Schemas,        \* sequence of schema records
          Vocab(_),       \* schema index -> set of lines (sequences of characters)
          LineClass(_),   \* a vocabulary line -> ZLinesFn!Classify of it (tabulated once by the model)
          MaxLines

VARIABLES sid,   \* index of the schema of this behaviour
          txt,   \* lines fed so far
          m      \* loader state (ZLoadFn)
zvars == <<sid, txt, m>>

S == Schemas[sid]

ZInit == \E i \in 1..Len(Schemas) :
            /\ sid = i /\ txt = <<>>
            /\ m = LoadStart(Schemas[i], "r0", <<>>)

FeedKind(k) == \E l \in Vocab(sid) :
                  /\ IsRunning(m) /\ Len(txt) < MaxLines
                  /\ LineClass(l).k = k
                  /\ txt' = Append(txt, l)
                  /\ m' = StepClass(S, m, LineClass(l))
                  /\ UNCHANGED sid

FeedKeyLine  == FeedKind("kv")
FeedOpen     == FeedKind("open")
FeedClose    == FeedKind("close")
FeedBlank    == FeedKind("skip")
FeedMalformed == FeedKind("bad")
FeedDirective == FeedKind("dir")
EndOfText    == /\ IsRunning(m)
                /\ m' = StepEnd(S, m)
                /\ UNCHANGED <<sid, txt>>

ZNext == FeedKeyLine \/ FeedOpen \/ FeedClose \/ FeedBlank \/ FeedMalformed \/ FeedDirective \/ EndOfText

Done == ~IsRunning(m)

-------------------------------------------------------------------------
Parsed == Descent(txt)                  \* the schema-less tree of the text, or a refusal

AcceptIffConforms ==
  Done => (m.out.r = "ok" <=> (Parsed.r = "ok" /\ Conforms(S.types, S.top, Parsed.tree)))

TreeIsValueTree ==
  (Done /\ m.out.r = "ok") =>
     m.out.tree = SecConvOf(S.top.datatype, ValueTree(S.types, S.top, "", Parsed.tree)).v

(* A rejection is one of the configuration-error kinds and carries no tree. *)
RejectIsConfigError ==
  (Done /\ m.out.r = "err") => m.out.kind \in {"syntax", "conv", "config", "substsyntax"}

(* Once a load has failed nothing more happens to it.                      *)
FailureIsFinal == [][m.out.r = "err" => m' = m]_zvars

ZTypeOK == /\ Len(m.ms) >= 1 /\ Len(m.ps) >= 1
           /\ m.out.r \in {"run", "ok", "err"}
=========================================================================
