---------------------------- MODULE MC_C04_G ----------------------------
(* C04, direction G: every string up to MaxLen over the ten-character      *)
(* alphabet of the property, with every mapping / environment kind for     *)
(* strings that contain a "$".  Terminal states are emitted as JSON.       *)
EXTENDS ZSubst
CONSTANT MaxLen

Alphabet == {"$", "{", "}", "(", ")", "a", "B", "_", "1", "-"}
Scn(s, m, e) == [src |-> s, mk |-> m, ek |-> e, mtab |-> <<>>, etab |-> <<>>]

Init == \E n \in 0..MaxLen : \E s \in [1..n -> Alphabet] :
          \E m \in (IF Has(s, "$") THEN {"none", "all", "part"} ELSE {"none"}) :
            \E e \in (IF Has(s, "$") THEN {"none", "set"} \cup (IF Has(s, "(") THEN {"empty"} ELSE {}) ELSE {"none"}) :
              SInit(Scn(s, m, e))

Spec == Init /\ [][SNext]_svars

Emit == st = "done" =>
          PrintT(ToJson([src |-> sc.src, mk |-> sc.mk, ek |-> sc.ek, o |-> outc,
                         isname |-> IsName(sc.src),
                         ntok |-> Len(Tokens(sc.src))]))
=========================================================================
