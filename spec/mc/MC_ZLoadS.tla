---------------------------- MODULE MC_ZLoadS ----------------------------
(* Scenario-driven model of the loader (C05 C06 C07 C08 C12 C13 C14 C15    *)
(* C16 C19).  Schemas and environment tables are generated TLA+ text; the  *)
(* scenarios themselves are read from the JSON file named by TRACE_FILE:   *)
(*   scn      sequence of [sid, main, opts, want]                          *)
(*   res      resource id -> lines (sequences of character tokens)         *)
(*   resolve  "<rid>|<argument>" -> resource id ("" = cannot be opened)    *)
(*   pkgs     %import argument -> [ok, types, impl]                        *)
EXTENDS ZLoadS, IOUtils

@GENERATED@

(* Non-ASCII white space used by layout rewrites (str.isspace() is true    *)
(* for each; stated here, checked against Python by the harness).          *)
MCExtSpace == {"~u3000;", "~ua0;", "~u2003;"}

TFile == JsonDeserialize(IOEnv.TRACE_FILE)
Scn   == TFile.scn

MCKeyConvOf(kt, tok) == IF <<kt, tok>> \in DOMAIN KeyTab THEN KeyTab[<<kt, tok>>]
                        ELSE [ok |-> FALSE, v |-> ""]
MCConvOf(dt, text)   == IF dt \in {"string", "null"} THEN [ok |-> TRUE, v |-> "'" \o text \o "'"]
                        ELSE IF <<dt, text>> \in DOMAIN ConvTab THEN ConvTab[<<dt, text>>]
                        ELSE [ok |-> FALSE, v |-> ""]
MCSecConvOf(dt, sv)  == CASE dt = "null"   -> [ok |-> TRUE, v |-> sv]
                          [] dt = "wrap"   -> [ok |-> TRUE, v |-> [wrapped |-> sv]]
                          [] dt = "reject" -> [ok |-> FALSE, v |-> sv]
MCResLines(rid)      == TFile.res[rid]
MCResolve(rid, arg)  == LET k == rid \o "|" \o arg
                        IN  IF k \in DOMAIN TFile.resolve THEN TFile.resolve[k] ELSE ""
MCPackage(name)      == IF name \in DOMAIN MCPackages THEN MCPackages[name] ELSE [ok |-> FALSE]
MCScnSchema(i)       == Scn[i].sid
MCScnMain(i)         == Scn[i].main
MCScnOpts(i)         == Scn[i].opts
MCScnTwin(i)         == Scn[i].twin
MCScnCulprit(i)      == Scn[i].culprit

Spec == SInit2 /\ [][SNext2]_svars2

HNames == IF m.out.r = "ok" THEN {m.out.hl[k][1] : k \in DOMAIN m.out.hl} ELSE {}
HMapKinds ==
  IF m.out.r # "ok" THEN <<>>
  ELSE LET names == SortedSeq({k \in DOMAIN m.out.hl : \A j \in DOMAIN m.out.hl : j < k => m.out.hl[j][1] # m.out.hl[k][1]})
           nm(i) == m.out.hl[names[i]][1]
       IN  <<[kind |-> "complete", name |-> "", res |-> CallOutcome(m.out.hl, HNames, {}, FALSE)]>>
           \o [i \in DOMAIN names |-> [kind |-> "missing", name |-> nm(i),
                                        res |-> CallOutcome(m.out.hl, HNames \ {nm(i)}, {}, FALSE)]]
           \o [i \in DOMAIN names |-> [kind |-> "none", name |-> nm(i),
                                        res |-> CallOutcome(m.out.hl, HNames, {nm(i)}, FALSE)]]
           \o [i \in DOMAIN names |-> [kind |-> "dup", name |-> nm(i),
                                        res |-> CallOutcome(m.out.hl, HNames, {}, TRUE)]]

Emit == SDone => PrintT(ToJson([scn |-> scn, o |-> m.out, ev |-> m.ev, defs |-> m.defs, hmaps |-> HMapKinds]))
=========================================================================
