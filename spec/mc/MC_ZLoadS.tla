---------------------------- MODULE MC_ZLoadS ----------------------------
(* Scenario-driven model of the loader (C05 C06 C07 C08 C14 C15 C16): the  *)
(* machine ZLoadS in the environment MC_ZLoadEnv.                          *)
EXTENDS ZLoadS, MC_ZLoadEnv

Spec == SInit2 /\ [][SNext2]_svars2

HNames == IF m.out.r = "ok" THEN {m.out.hl[k][1] : k \in DOMAIN m.out.hl} ELSE {}
HMapKinds ==
  IF m.out.r # "ok" THEN <<>>
  ELSE LET names == SortedSeq({k \in DOMAIN m.out.hl : \A j \in DOMAIN m.out.hl : j < k => m.out.hl[j][1] # m.out.hl[k][1]})
           nm(i) == m.out.hl[names[i]][1]
       IN  <<[kind |-> "complete", name |-> "", res |-> CallOutcome(m.out.hl, HNames, {}, FALSE)],
             \* a map may name more handlers than this text instantiated (one callable per handler of the schema)
             [kind |-> "extra", name |-> "", res |-> CallOutcome(m.out.hl, HNames \cup {"zcv-surplus", "zcv-none"}, {"zcv-none"}, FALSE)]>>
           \o [i \in DOMAIN names |-> [kind |-> "missing", name |-> nm(i),
                                        res |-> CallOutcome(m.out.hl, HNames \ {nm(i)}, {}, FALSE)]]
           \o [i \in DOMAIN names |-> [kind |-> "none", name |-> nm(i),
                                        res |-> CallOutcome(m.out.hl, HNames, {nm(i)}, FALSE)]]
           \o [i \in DOMAIN names |-> [kind |-> "dup", name |-> nm(i),
                                        res |-> CallOutcome(m.out.hl, HNames, {}, TRUE)]]
           \* the same name supplied in two spellings neither of which is the normalised one
           \o [i \in DOMAIN names |-> [kind |-> "dup2", name |-> nm(i),
                                        res |-> CallOutcome(m.out.hl, HNames, {}, TRUE)]]

Emit == SDone => PrintT(ToJson([scn |-> scn, o |-> m.out, ev |-> m.ev, defs |-> m.defs, hmaps |-> HMapKinds]))
=========================================================================
