---------------------------- MODULE MC_C03_V ----------------------------
(* C03, direction V: schema-less loads of random texts recorded from the   *)
(* real code, validated against ZLines.  The machine reads the recorded    *)
(* text line by line; the verdict compares its outcome with the recorded   *)
(* one (accepted or not, error family, nested mapping, imports).           *)
EXTENDS ZLines, IOUtils
CONSTANT N
VARIABLE tid

TFile == JsonDeserialize(IOEnv.TRACE_FILE)
TData == TFile.recs
VExtLower == TFile.lower
VExtSpace == {TFile.space[i] : i \in DOMAIN TFile.space}

Init == \E i \in 1..N : tid = i /\ LInit(TData[i].txt)
Next == LNext /\ UNCHANGED tid
Spec == Init /\ [][Next]_<<lvars, tid>>

Logged == TData[tid].out

(* Values of one key, in order of appearance.                              *)
RECURSIVE ValuesOf(_, _)
ValuesOf(kv, k) == IF kv = <<>> THEN <<>>
                   ELSE IF kv[1][1] = k THEN <<kv[1][2]>> \o ValuesOf(Tail(kv), k)
                   ELSE ValuesOf(Tail(kv), k)

RECURSIVE SameNode(_, _)
SameNode(n, g) ==
  /\ n.type = g.type /\ n.name = g.name
  /\ {n.kv[i][1] : i \in DOMAIN n.kv} = {g.keys[i][1] : i \in DOMAIN g.keys}
  /\ \A i \in DOMAIN g.keys : ValuesOf(n.kv, g.keys[i][1]) = g.keys[i][2]
  /\ Len(n.secs) = Len(g.secs)
  /\ \A i \in DOMAIN n.secs : SameNode(n.secs[i], g.secs[i])

SeqSet(s) == {s[i] : i \in DOMAIN s}

Clause ==
  LET o == lm.out IN
  IF Logged.r # o.r THEN "accept/reject"
  ELSE IF o.r = "err" THEN (IF Logged.kind # o.kind THEN "error-kind" ELSE "accepted")
  ELSE IF ~SameNode(o.tree, Logged.tree) THEN "tree"
  ELSE IF SeqSet(o.imports) # SeqSet(Logged.imports) THEN "imports"
  ELSE "accepted"

Verdict == LDone => PrintT(ToJson([tid |-> tid, clause |-> Clause,
                                   want |-> IF lm.out.r = "ok" THEN "ok" ELSE lm.out.kind]))
=========================================================================
