---------------------------- MODULE MC_C15_V ----------------------------
(* C15 on texts for the shipped components, direction V: pairs (original   *)
(* text, rewritten text) with the real outcomes of both loads recorded.    *)
(* The specification's grammar decides whether the pair is layout-related: *)
(* both texts are read (LRun) and the two trees must be the same up to the *)
(* letter case of keys and the relative order of lines of different keys   *)
(* (LayoutEquivalent); for such a pair the recorded outcomes must agree,   *)
(* and a text the grammar refuses must have been refused by the loader.    *)
EXTENDS ZLinesFn, IOUtils, Json
CONSTANT N
VARIABLE tid

TFile == JsonDeserialize(IOEnv.TRACE_FILE)
TData == TFile.recs
VExtLower == TFile.lower
VExtSpace == {TFile.space[i] : i \in DOMAIN TFile.space}

Init == tid \in 1..N
Next == UNCHANGED tid
SpecV == Init /\ [][Next]_tid

(* Keys are compared after lower-casing (the shipped components use the    *)
(* case-insensitive basic-key key type): a text is normalised by writing   *)
(* every key of a key line in lower case before it is read.                *)
NormLine(raw) == LET c == Shape(raw) IN
                 IF c.k = "kv" THEN LowerSeq(c.key) \o (IF c.value = <<>> THEN <<>> ELSE <<" ">> \o c.value)
                 ELSE raw
NormText(t) == [i \in DOMAIN t |-> NormLine(t[i])]

RECURSIVE ValuesOfKey(_, _)
ValuesOfKey(kv, k) == IF kv = <<>> THEN <<>>
                      ELSE IF kv[1][1] = k THEN <<kv[1][2]>> \o ValuesOfKey(Tail(kv), k)
                      ELSE ValuesOfKey(Tail(kv), k)
Keys(kv) == {kv[i][1] : i \in DOMAIN kv}

RECURSIVE LayoutEquivalent(_, _)
LayoutEquivalent(a, b) ==
  /\ a.type = b.type /\ a.name = b.name
  /\ Keys(a.kv) = Keys(b.kv)
  /\ \A k \in Keys(a.kv) : ValuesOfKey(a.kv, k) = ValuesOfKey(b.kv, k)
  /\ Len(a.secs) = Len(b.secs)
  /\ \A i \in DOMAIN a.secs : LayoutEquivalent(a.secs[i], b.secs[i])

Clause ==
  LET r  == TData[tid]
      o1 == LRun(NormText(r.orig))
      o2 == LRun(NormText(r.rew))
  IN IF o1.r # o2.r THEN "harness:rewrite-changes-syntax"
     ELSE IF o1.r = "ok" /\ ~LayoutEquivalent(o1.tree, o2.tree) THEN "harness:rewrite-not-layout-preserving"
     ELSE IF o1.r # "ok" /\ (r.r1 = "ok" \/ r.r2 = "ok") THEN "ungrammatical-text-accepted"
     ELSE IF ~r.same THEN "layout-changes-outcome"
     ELSE "accepted"
Verdict == PrintT(ToJson([tid |-> tid, clause |-> Clause]))
=========================================================================
