---------------------------- MODULE MC_ZRegistry ----------------------------
(* Every sequence of MaxOps registry operations over a small set of names   *)
(* (stock names in two letter cases, application names in two cases, a      *)
(* dotted name that resolves, one that does not, a name that is no basic    *)
(* key); histories are emitted for replay on ZConfig.datatypes.Registry.    *)
EXTENDS ZRegistry, Json

@GENERATED@

Emit == Len(hist) = MaxOps => PrintT(ToJson([hist |-> hist]))
=============================================================================
