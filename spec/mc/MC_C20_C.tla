---------------------------- MODULE MC_C20_C ----------------------------
(* C20 (c), direction V: lives of format strings recorded from the real    *)
(* code (load, build the formatter, format an ordinary record) validated   *)
(* against ZLogger!FormatClause.                                           *)
EXTENDS ZLogger, IOUtils, Json
CONSTANT N
VARIABLE tid
TData == JsonDeserialize(IOEnv.TRACE_FILE).recs
Init == tid \in 1..N
Next == UNCHANGED tid
SpecV == Init /\ [][Next]_tid
Verdict == PrintT(ToJson([tid |-> tid, clause |-> FormatClause(TData[tid])]))
=========================================================================
