---------------------------- MODULE MC_C18_V ----------------------------
(* C18 part A, direction V: calls of url.urldefrag / url.urljoin /         *)
(* urlnormalize / isPath recorded from the real code together with what    *)
(* urllib itself (environment) answered for the same arguments; TLC        *)
(* validates each record against ZUrl.                                     *)
EXTENDS ZUrl, IOUtils, Json
CONSTANT N
VARIABLE tid

TData == JsonDeserialize(IOEnv.TRACE_FILE).recs
Init == tid \in 1..N
Next == UNCHANGED tid
SpecV == Init /\ [][Next]_tid

R == TData[tid]
Clause ==
  IF R.path # IsPath(R.s) THEN "isPath"
  ELSE IF R.norm # Normalize(R.s) THEN "urlnormalize"
  ELSE IF R.dbase # Defrag([base |-> R.envbase, frag |-> R.envfrag]).base THEN "urldefrag-base"
  ELSE IF R.dfrag # R.envfrag THEN "urldefrag-fragment"
  ELSE IF \E i \in DOMAIN R.joins : R.joins[i].out # JoinFix(R.joins[i].env) THEN "urljoin"
  ELSE "accepted"
(* what the documentation says a fragment is, against urllib's answer: an environment assumption *)
EnvFragIsDocumented == R.envfrag = FragOf(R.s)
Verdict == PrintT(ToJson([tid |-> tid, clause |-> Clause, envfrag |-> EnvFragIsDocumented]))
=========================================================================
