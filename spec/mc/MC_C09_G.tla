---------------------------- MODULE MC_C09_G ----------------------------
(* C09, direction G: for one datatype (constant DT) every string up to     *)
(* MaxLen over the datatype's alphabet (generated); TLC checks the          *)
(* documented contract on the transcription and emits every result.        *)
EXTENDS ZDatatypes
CONSTANTS DT, MaxLen

@GENERATED@

VARIABLES s, r
(* every string up to MaxLen over the alphabet, plus representative longer strings (ExtraStrings) *)
Init == \/ \E n \in 0..MaxLen : \E x \in [1..n -> Alphabet] : s = x /\ r = Conv(DT, x)
        \/ \E x \in ExtraStrings : s = x /\ r = Conv(DT, x)
Next == UNCHANGED <<s, r>>
Spec == Init /\ [][Next]_<<s, r>>

ContractHolds  == Contract(DT, s, r)
KeysIdempotent == KeyConvIdempotent(DT, s)
Emit == PrintT(ToJson([dt |-> DT, s |-> s, r |-> r]))
=========================================================================
