---------------------------- MODULE MC_ZLoadEnv ----------------------------
(* Environment of the loader specification for scenario-driven models:     *)
(* generated schemas and key/datatype tables, and the scenario file        *)
(* (TRACE_FILE):                                                           *)
(*   scn      sequence of [sid, main, opts, twin, culprit]                 *)
(*   res      resource id -> lines (sequences of character tokens)         *)
(*   resolve  "<rid>|<argument>" -> resource id ("" = cannot be opened)    *)
EXTENDS ZConform, IOUtils

@GENERATED@

(* Non-ASCII white space used by layout rewrites (str.isspace() is true    *)
(* for each; stated here, checked against Python by the harness).          *)
MCExtSpace == {"~u3000;", "~ua0;", "~u2003;", "~u2028;"}

TFile == JsonDeserialize(IOEnv.TRACE_FILE)
Scn   == TFile.scn

MCKeyConvOf(kt, tok) == IF <<kt, tok>> \in DOMAIN KeyTab THEN KeyTab[<<kt, tok>>]
                        ELSE [ok |-> FALSE, v |-> ""]
MCConvOf(dt, text)   == IF dt = "boomkey" THEN (IF text = "BOOM" THEN [ok |-> FALSE, v |-> "~fault~"]
                                               ELSE [ok |-> TRUE, v |-> "'" \o text \o "'"])
                        ELSE IF dt \in {"string", "null"} THEN [ok |-> TRUE, v |-> "'" \o text \o "'"]
                        ELSE IF <<dt, text>> \in DOMAIN ConvTab THEN ConvTab[<<dt, text>>]
                        ELSE [ok |-> FALSE, v |-> ""]
MCSecConvOf(dt, sv)  == CASE dt = "null"   -> [ok |-> TRUE, v |-> sv]
                          [] dt = "wrap"   -> [ok |-> TRUE, v |-> [wrapped |-> sv]]
                          [] dt = "reject" -> [ok |-> FALSE, v |-> sv]
                          [] dt = "boom"   -> [ok |-> FALSE, v |-> sv]
MCResLines(rid)      == TFile.res[rid]
MCResolve(rid, arg)  == LET k == rid \o "|" \o arg
                        IN  IF k \in DOMAIN TFile.resolve THEN TFile.resolve[k] ELSE ""
MCPackage(name)      == IF name \in DOMAIN MCPackages THEN MCPackages[name] ELSE [ok |-> FALSE]
MCScnSchema(i)       == Scn[i].sid
MCScnMain(i)         == Scn[i].main
MCScnOpts(i)         == Scn[i].opts
MCScnTwin(i)         == Scn[i].twin
MCScnCulprit(i)      == Scn[i].culprit
MCScnFault(i)        == Scn[i].fault
=========================================================================
