---------------------------- MODULE MC_C18_A ----------------------------
(* C18 part A, direction G: every string up to MaxLen over the property's  *)
(* alphabet; TLC checks the contracts of IsPath / Normalize / JoinFix and  *)
(* emits the results for replay on BaseLoader.isPath / url.urlnormalize.   *)
EXTENDS ZUrl, Json
CONSTANT MaxLen

Alphabet == {"a", "C", ":", "/", "\\", "#", ".", "f", "i", "l", "e"}

VARIABLE s
Init == \E n \in 0..MaxLen : \E x \in [1..n -> Alphabet] : s = x
Next == UNCHANGED s
SpecA == Init /\ [][Next]_s

PathContract   == PathIffNotUrl(s)
NormalizeContract == NormContract(s)
JoinContract   == JoinFixContract(s)
Emit == PrintT(ToJson([s |-> s, path |-> IsPath(s), norm |-> Normalize(s), frag |-> HasFragment(s)]))

=========================================================================
