---------------------------- MODULE MC_C18_B ----------------------------
(* C18 part B, direction G: every scenario (chain of 1..3 resources in the *)
(* directories of a three-level tree, reference shapes, entry point,       *)
(* working directory, fragment position); TLC follows the chain by path    *)
(* algebra, checks that every entry point and shape reaches the intended   *)
(* resources and emits the scenario with its outcome.                      *)
EXTENDS ZUrlLayout, Json

MCDirs == {<<"T">>, <<"T", "d1">>, <<"T", "d1", "d2">>, <<"T", "d3">>}
MCCwds == MCDirs \cup {<<"O">>}
MCCwds2 == {<<"T", "d1">>, <<"O">>}
MCShapes == {"rel", "dot", "updown", "dotdot", "abs", "url"}
MCKinds == {"abs", "rel", "url", "fobj-abs", "fobj-rel"}

Emit == LDone => PrintT(ToJson([res |-> scn.res, shape |-> scn.shape, kind |-> scn.kind, cwd |-> scn.cwd,
                                frag |-> scn.frag, out |-> out, reached |-> reached, arg |-> EntryArg(scn)]))
=========================================================================
