---------------------------- MODULE MC_C20_B ----------------------------
(* C20 (b), direction G: every sequence of MaxOps operations on every      *)
(* configuration of the generated set; the observable state after each     *)
(* operation travels in the history and is compared with the real logging  *)
(* state by the harness.                                                   *)
EXTENDS ZLoggerLife, Json

@GENERATED@

Emit == Len(hist) = MaxOps => PrintT(ToJson([cfg |-> cfg, hist |-> hist]))
=========================================================================
