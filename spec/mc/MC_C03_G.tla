---------------------------- MODULE MC_C03_G ----------------------------
(* C03 (and the accepted half of C17), direction G.                        *)
(* Level 1: every single line up to a length bound over the 16-class       *)
(* alphabet of the property (plus longer lines over reduced alphabets),    *)
(* each placed in up to three contexts so that its classification shows in *)
(* the outcome.  Level 2: every text of up to MaxLines lines over a set of *)
(* representative lines (nesting, directives, malformed shapes).           *)
EXTENDS ZLines
CONSTANTS Level, L16, L8, L5, MaxLines

UWS == "~u3000;"     \* IDEOGRAPHIC SPACE: white space for strip() and \s
UEA == "~uc9;"       \* LATIN CAPITAL LETTER E WITH ACUTE: a letter, lower-cased to ~ue9;
MCExtLower == (UEA :> "~ue9;")
MCExtSpace == {UWS}

A16 == {"<", ">", "/", "%", "#", "(", ")", "$", "a", "B", "1", "-", " ", "\t", UWS, UEA}
A8  == {"<", ">", "/", "%", "#", "(", "a", " "}
A5  == {"<", ">", "/", "a", " "}

(* Lines are enumerated as functions [1..n -> alphabet] (TLC enumerates a   *)
(* function set lazily; building the set of all sequences first is slow).  *)
LineOK(l) == \/ Len(l) <= L16 /\ \A i \in 1..Len(l) : l[i] \in A16
             \/ Len(l) > L16 /\ Len(l) <= L8 /\ \A i \in 1..Len(l) : l[i] \in A8
             \/ Len(l) > L8 /\ Len(l) <= L5 /\ \A i \in 1..Len(l) : l[i] \in A5
AlphaFor(n) == IF n <= L16 THEN A16 ELSE IF n <= L8 THEN A8 ELSE A5

OpenA  == <<"<", "a", ">">>
CloseA == <<"<", "/", "a", ">">>
CtxKinds == {"alone", "inside", "closed"}
InContext(l, c) ==
  CASE c = "alone"  -> <<l>>
    [] c = "inside" -> <<OpenA, l, CloseA>>
    [] c = "closed" -> <<l, <<"<", "/">> \o Classify(l).type \o <<">">> >>
Applies(l, c) == c = "closed" => (Classify(l).k = "open" /\ ~Classify(l).empty)

Reps == @REPS@

Init == IF Level = 1
        THEN \E n \in 0..L5 : \E l \in [1..n -> AlphaFor(n)] : \E c \in CtxKinds :
                Applies(l, c) /\ LInit(InContext(l, c))
        ELSE \E n \in 0..MaxLines : \E t \in [1..n -> Reps] : LInit(t)
Spec == Init /\ [][LNext]_lvars

Emit == LDone => PrintT(ToJson([txt |-> txt, o |-> lm.out]))
=========================================================================
