---------------------------- MODULE MC_ZSession ----------------------------
(* Sessions (C12, C13): sequences of loads against ONE schema object,      *)
(* recorded from the real code, validated against the specification.       *)
(*                                                                         *)
(* State: the application's view of the schema (`app`: type names,         *)
(* children and defaults as one digest string, plus the implementer table  *)
(* of the abstract types) and the position in the session.  The           *)
(* specification's loads take the schema as an immutable value, so the     *)
(* only thing a load may do to `app` is nothing:                           *)
(*     SessLoad:   outcome = Load(schema, resources, overrides).out        *)
(*                 app' = app                                              *)
(*     SessMutate: the application mutates returned objects; app' = app    *)
(* A recorded step is accepted when the recorded outcome equals the        *)
(* specification's outcome for that load *alone* (history independence)    *)
(* and the recorded digest after the step equals `app`.  The named         *)
(* deviation LeakImplementer (DESIGN D9) allows the implementer table to   *)
(* gain names of types that a %import of an earlier load defined; verdicts *)
(* are computed with and without it so that the harness can tell the known *)
(* finding from any other change of the schema.                            *)
EXTENDS MC_ZLoadEnv

CONSTANT NSess
VARIABLES sess, pos, app, strict, lenient, leakused
sesvars == <<sess, pos, app, strict, lenient, leakused>>

Sess == TFile.sessions

SameLogged(o, g) ==
  /\ o.r = g.r
  /\ (o.r = "ok" => CanonSV(o.tree) = CanonSV(g.tree))
  /\ (o.r = "err" => g.kind \in {"syntax", "conv", "config", "substsyntax"})

(* the recorded error is exactly this outcome's error (kind, and line when the code reports one): used *)
(* only to tell which of two schemas the code evidently ran on, never to   *)
(* reject a session                                                        *)
SameError(o, g) == o.r = "err" /\ g.r = "err" /\ o.kind = g.kind /\ (g.line = -1 \/ o.line = g.line)

ImplSet(d) == UNION {{<<d.impl[i][1], d.impl[i][2][j]>> : j \in DOMAIN d.impl[i][2]} : i \in DOMAIN d.impl}

DigestSame(a, b)    == a.rest = b.rest /\ ImplSet(a) = ImplSet(b)
(* LeakImplementer: names may be added, only names of importable types.    *)
DigestLeaked(a, b, imported) ==
  /\ a.rest = b.rest
  /\ ImplSet(a) \subseteq ImplSet(b)
  /\ \A p \in ImplSet(b) \ ImplSet(a) : p[2] \in imported

(* Deviation LeakImplementer (finding D9): the abstract types of the        *)
(* application schema are shared with the per-load schema, so the          *)
(* implementer names registered by earlier loads are still there.  The     *)
(* schema as the code then sees it: every abstract type lists what the     *)
(* digest taken before this load lists.                                    *)
ImplOf(dig, n) == {p[2] : p \in {q \in ImplSet(dig) : q[1] = n}}
LeakedSchema(S, dig) ==
  [S EXCEPT !.types = [n \in DOMAIN S.types |->
                         IF S.types[n].abstract THEN [S.types[n] EXCEPT !.impl = @ \cup ImplOf(dig, n)]
                         ELSE S.types[n]]]

ImportedNames == UNION {DOMAIN MCPackages[p].types : p \in {q \in DOMAIN MCPackages : MCPackages[q].ok}}

Init == \E s \in 1..NSess :
          /\ sess = s /\ pos = 0 /\ app = Sess[s].digest0
          /\ strict = "accepted" /\ lenient = "accepted" /\ leakused = FALSE

SStep == Sess[sess].steps[pos + 1]

SessLoad ==
  /\ pos < Len(Sess[sess].steps) /\ SStep.op = "load"
  /\ LET j == SStep.scn
         o == Load(MCSchemas[MCScnSchema(j)], MCScnMain(j), MCScnOpts(j)).out
         c == IF ~SameLogged(o, SStep.out) THEN "outcome-depends-on-history"
              ELSE IF ~DigestSame(app, SStep.digest) THEN "schema-changed" ELSE "accepted"
         oleak == Load(LeakedSchema(MCSchemas[MCScnSchema(j)], app), MCScnMain(j), MCScnOpts(j)).out
         l == IF ~SameLogged(o, SStep.out) /\ ~SameLogged(oleak, SStep.out) THEN "outcome-depends-on-history"
              ELSE IF ~DigestLeaked(app, SStep.digest, ImportedNames) THEN "schema-changed" ELSE "accepted"
     IN  /\ strict' = IF strict # "accepted" THEN strict ELSE c
         /\ lenient' = IF lenient # "accepted" THEN lenient ELSE l
         \* the recorded outcome is the one of the schema with the leaked implementer names, not of the schema proper
         \* (also when both outcomes are rejections and the recorded kind and line are the leaked schema's)
         /\ leakused' = (\/ leakused
                         \/ (~SameLogged(o, SStep.out) /\ SameLogged(oleak, SStep.out))
                         \/ (~SameError(o, SStep.out) /\ SameError(oleak, SStep.out)))
  /\ pos' = pos + 1 /\ app' = SStep.digest /\ UNCHANGED sess

SessMutate ==
  /\ pos < Len(Sess[sess].steps) /\ SStep.op = "mutate"
  /\ strict' = IF strict # "accepted" THEN strict
               ELSE IF ~DigestSame(app, SStep.digest) THEN "schema-changed-by-mutation" ELSE "accepted"
  /\ lenient' = IF lenient # "accepted" THEN lenient
                ELSE IF ~DigestSame(app, SStep.digest) THEN "schema-changed-by-mutation" ELSE "accepted"
  /\ pos' = pos + 1 /\ app' = SStep.digest /\ UNCHANGED <<sess, leakused>>

Next == SessLoad \/ SessMutate
Spec == Init /\ [][Next]_sesvars

SessDone == pos = Len(Sess[sess].steps)
Verdict == SessDone => PrintT(ToJson([tid |-> sess, clause |-> strict, lenient |-> lenient, leakused |-> leakused]))
=========================================================================
