---------------------------- MODULE MC_C04_V ----------------------------
(* C04, direction V: executions of ZConfig.substitution.substitute         *)
(* recorded by the harness (random Unicode strings, explicit mapping and   *)
(* environment tables) are validated against ZSubst.  One behaviour per    *)
(* recorded call; the verdict names the first clause that fails.           *)
EXTENDS ZSubst, IOUtils
CONSTANT N
VARIABLE tid

TData == JsonDeserialize(IOEnv.TRACE_FILE).recs

Scn(i) == [tid |-> i, mk |-> "table", ek |-> "table"]
VSrcOf(s)  == TData[s.tid].src
VMTabOf(s) == TData[s.tid].mtab
VETabOf(s) == TData[s.tid].etab

Init == \E i \in 1..N : tid = i /\ SInit(Scn(i))
Next == SNext /\ UNCHANGED tid
Spec == Init /\ [][Next]_<<svars, tid>>

Logged == TData[tid].out

Clause ==
  IF Logged.r # outc.r THEN "outcome-kind"
  ELSE IF outc.r = "ok" /\ Logged.v # outc.v THEN "result-text"
  ELSE IF outc.r = "miss" /\ LowerSeq(Logged.name) # LowerSeq(outc.name) THEN "missing-name"
  ELSE IF outc.r = "miss" /\ Logged.source # SrcOf(sc) THEN "error-source"
  ELSE IF TData[tid].isname # IsName(SrcOf(sc)) THEN "isname"
  ELSE "accepted"

Verdict == st = "done" => PrintT(ToJson([tid |-> tid, clause |-> Clause, want |-> outc.r]))
=========================================================================
