---------------------------- MODULE MC_C20_A ----------------------------
(* C20 (a), direction G: every level token and every combination of the    *)
(* logfile options; contracts checked, results emitted for replay.         *)
EXTENDS ZLogger, Json

LevelTokens == {[k |-> "name", n |-> n, v |-> 0] : n \in DOMAIN LevelNames \cup {"loud", "warnings", ""}}
               \cup {[k |-> "int", n |-> "", v |-> v] : v \in -2..52}
               \cup {[k |-> "junk", n |-> "", v |-> 0]}
Options == [path : {"STDOUT", "STDERR", "file"}, max : {0, 1}, old : {0, 1}, interval : {0, 1},
            when : {"", "D"}, enc : {"", "utf-8"}, delay : BOOLEAN]

VARIABLES what, x
Init == \/ (what = "level" /\ x \in LevelTokens)
        \/ (what = "handler" /\ x \in Options)
Next == UNCHANGED <<what, x>>
SpecA == Init /\ [][Next]_<<what, x>>

Contracts == IF what = "level" THEN LevelContract(x) ELSE HandlerContract(x)
Emit == PrintT(ToJson([what |-> what, x |-> x,
                       r |-> IF what = "level" THEN LevelOf(x) ELSE [ok |-> TRUE, v |-> 0],
                       c |-> IF what = "handler" THEN ChooseHandler(x) ELSE ""]))
=========================================================================
