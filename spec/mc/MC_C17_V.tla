---------------------------- MODULE MC_C17_V ----------------------------
(* C17: the schema-less round trip  text --load--> tree1 --str--> s1       *)
(* --load--> tree2 --str--> s2, recorded from the real code.  The property *)
(* fixes a relation, not a layout, so the printed text is not prescribed:  *)
(* the specification only demands that                                     *)
(*   first-load          the recorded first outcome is the machine's       *)
(*                       (%define / %include end in a refusal),            *)
(*   printed-structure   whatever str() printed is, by this grammar, a     *)
(*                       text of the same structure (same keys and value   *)
(*                       lists, same section types / names / order /       *)
(*                       nesting, same imports),                           *)
(*   reload-structure    the recorded reload equals the first tree,        *)
(*   reprint-identical   the second serialisation equals the first.        *)
EXTENDS MC_C03_V

(* The environment of the recorded executions: one variable, ZCV_EMPTY, is  *)
(* defined and empty (the value of an environment variable is a value like *)
(* any other, the empty string included); no other name is defined.        *)
VNoDefs(v) == [src |-> v, mk |-> "none", ek |-> "table", mtab |-> <<>>,
               etab |-> <<<<"ZCV_EMPTY", TRUE, "">>>>]

SameOutcome(o, g) ==
  /\ o.r = "ok" /\ g.r = "ok"
  /\ SameNode(o.tree, g.tree)
  /\ SeqSet(o.imports) = SeqSet(g.imports)

(* Same structure of two machine outcomes (both computed by the spec).     *)
RECURSIVE SameSpecNode(_, _)
SameSpecNode(a, b) ==
  /\ a.type = b.type /\ a.name = b.name
  /\ {a.kv[i][1] : i \in DOMAIN a.kv} = {b.kv[i][1] : i \in DOMAIN b.kv}
  /\ \A i \in DOMAIN a.kv : ValuesOf(a.kv, a.kv[i][1]) = ValuesOf(b.kv, a.kv[i][1])
  /\ Len(a.secs) = Len(b.secs)
  /\ \A i \in DOMAIN a.secs : SameSpecNode(a.secs[i], b.secs[i])

Clause17 ==
  LET o   == lm.out
      rec == TData[tid]
  IN  IF Clause # "accepted" THEN "first-load:" \o Clause
      ELSE IF o.r # "ok" THEN "accepted"
      ELSE LET p == LRun(rec.s1)
           IN  IF p.r # "ok" THEN "printed-structure:rejected"
               ELSE IF ~SameSpecNode(o.tree, p.tree) THEN "printed-structure:tree"
               ELSE IF SeqSet(o.imports) # SeqSet(p.imports) THEN "printed-structure:imports"
               ELSE IF ~SameOutcome(o, rec.out2) THEN "reload-structure"
               ELSE IF ~rec.s2same THEN "reprint-identical"
               ELSE "accepted"

Verdict17 == LDone => PrintT(ToJson([tid |-> tid, clause |-> Clause17,
                                     want |-> IF lm.out.r = "ok" THEN "ok" ELSE lm.out.kind]))
=========================================================================
