---------------------------- MODULE MC_ZSchema ----------------------------
(* C10 / C11: the schema-language machine run on every document of a       *)
(* scenario file (TRACE_FILE), one SAX event per step.                     *)
(*   docs   resource id -> document tree                                   *)
(*   mains  sequence of [rid, exp, fault]: the documents to build; exp =   *)
(*          also build the written-out expansion and compare (C11); fault  *)
(*          = [rid, n] the n-th read of that resource raises (C19)         *)
(*   tables keynorm lower attrof ident reserved rel dtcanon pfxabs pfxrel  *)
(*          strip dirpart split refs pkgs (environment, see ZSchemaLang)   *)
EXTENDS ZSchemaExpand, IOUtils, Json

CONSTANT N
VARIABLES d, st
vars == <<d, st>>

TFile == JsonDeserialize(IOEnv.TRACE_FILE)
Tab(name, k, dflt) == IF k \in DOMAIN TFile[name] THEN TFile[name][k] ELSE dflt
InTab(name, k) == k \in DOMAIN TFile[name]

MCKeyNorm(kt, tok) == Tab("keynorm", kt \o "|" \o tok, Bad)
MCLowerOf(tok)     == Tab("lower", tok, tok)
MCAttrOf(k)        == Tab("attrof", k, Bad)
MCIsIdent(tok)     == InTab("ident", tok)
MCIsReserved(tok)  == InTab("reserved", tok)
MCIsRel(tok)       == InTab("rel", tok)
MCDtCanon(nm)      == Tab("dtcanon", nm, Bad)
MCPfxAbsOK(p)      == InTab("pfxabs", p)
MCPfxRelOK(p)      == InTab("pfxrel", p)
MCStripOf(s)       == Tab("strip", s, s)
MCHasDirPart(s)    == InTab("dirpart", s)
MCSplitRefs(s)     == Tab("split", s, <<s>>)
MCRefOf(rid, ref)  == Tab("refs", rid \o "|" \o ref, [frag |-> FALSE, rid |-> ""])
MCPkgOf(pkg, file) == Tab("pkgs", pkg \o "|" \o file, [ok |-> FALSE, url |-> "", rid |-> ""])
MCDocOf(rid)       == TFile.docs[rid]

Main == TFile.mains[d]

Init == \E i \in 1..N : d = i /\ st = StartF(TFile.mains[i].rid, TFile.mains[i].fault)

Kind == StepKind(st)
Advance == /\ Running(st) /\ st' = Step(st) /\ UNCHANGED d
ReadResource   == Advance /\ Kind = "ReadResource"
Characters     == Advance /\ Kind = "Characters"
EndElement     == Advance /\ Kind = "End"
ResumeStartTag == Advance /\ Kind = "Resume"
EndOfResource  == Advance /\ Kind = "EndOfResource"
StartElement   == Running(st) /\ Kind \notin {"ReadResource", "Characters", "End", "Resume", "EndOfResource"}
                  /\ st' = Step(st) /\ UNCHANGED d
Next == ReadResource \/ StartElement \/ Characters \/ EndElement \/ ResumeStartTag \/ EndOfResource
Spec == Init /\ [][Next]_vars

Done == ~Running(st)
Accepted == st.done /\ st.err = ""

(* C10: the machine accepts exactly the rule-abiding documents             *)
AcceptIffWellFormed == Done => IF Main.fault.n = 0 THEN Accepted <=> WellFormed(Main.rid)
                                       ELSE Accepted => WellFormed(Main.rid)

(* C11: where the expansion is defined it is rule-abiding exactly when the *)
(* composed document is, and builds the same schema                        *)
WantTwin == Main.exp /\ Accepted /\ ExpansionDefined(Main.rid)
TwinOut == BuildTree(ExpandDoc(Main.rid))
ExpansionSameSchema ==
  (Done /\ WantTwin) => /\ TwinOut.err = "" /\ TwinOut.done
                        /\ Digest(TwinOut.schs[1]) = Digest(st.schs[1])

(* a failed build is final, a finished one has closed every element and every frame *)
StacksBalanced == st.done => /\ Len(st.fr) = 1 /\ F(st).elems = <<>> /\ F(st).ost = <<>> /\ F(st).pfx = <<>>
                             /\ Len(st.schs) = 1

(* C19: resources opened while a schema is loaded are closed innermost first, however the load ends *)
ResourcesNested == Done => Nested(ResourceEvents(st), <<>>)

Emit == Done => PrintT(ToJson([d |-> d, ok |-> Accepted, any |-> st.any, why |-> st.err, ev |-> ResourceEvents(st),
                               dig |-> IF Accepted THEN Digest(st.schs[1]) ELSE <<>>,
                               exp |-> IF Done /\ WantTwin THEN <<ExpandDoc(Main.rid)>> ELSE <<>>]))
=========================================================================
