----------------------------- MODULE ZSubst -----------------------------
(* $-substitution, operational side: the scanner loop of                   *)
(* ZConfig.substitution.substitute / _split as a state machine, checked by *)
(* TLC against the declarative replacement of module ZSubstFn.             *)
EXTENDS ZSubstFn

-------------------------------------------------------------------------
(* Operational side: the loop of substitute().                             *)
VARIABLES sc,     \* the scenario: [src, mk, ek, mtab, etab], never changes
          st,     \* "start" | "run" | "done"
          rest,   \* text still to scan
          acc,    \* result so far (a string)
          outc    \* outcome once st = "done"
svars == <<sc, st, rest, acc, outc>>

SInit(scn) == /\ sc = scn /\ st = "start" /\ rest = SrcOf(scn) /\ acc = "" /\ outc = Ok("")

(* substitute(): a string without "$" is returned as it is.                *)
Identity == /\ st = "start" /\ ~Has(SrcOf(sc), "$")
            /\ st' = "done" /\ outc' = Ok(Str(SrcOf(sc)))
            /\ UNCHANGED <<sc, rest, acc>>
Enter    == /\ st = "start" /\ Has(SrcOf(sc), "$")
            /\ st' = "run" /\ UNCHANGED <<sc, rest, acc, outc>>

(* `while rest:` is over.                                                  *)
LoopEnd  == /\ st = "run" /\ rest = <<>>
            /\ st' = "done" /\ outc' = Ok(acc) /\ UNCHANGED <<sc, rest, acc>>

(* _split(): no "$" left - the whole rest is literal and the loop ends.    *)
CopyTail == /\ st = "run" /\ rest # <<>> /\ ~Has(rest, "$")
            /\ acc' = acc \o Str(rest) /\ rest' = <<>>
            /\ UNCHANGED <<sc, st, outc>>

D   == IndexOf(rest, "$")                           \* 1-based position of the first "$"
Nxt == IF D + 1 <= Len(rest) THEN rest[D + 1] ELSE ""  \* s[i+1:i+2]

Fail(o) == st' = "done" /\ outc' = o /\ UNCHANGED <<sc, rest, acc>>

LoneDollar == /\ st = "run" /\ Has(rest, "$") /\ Nxt = ""
              /\ Fail(Syn)

(* "$$": the prefix handed back includes one "$".                          *)
Escape == /\ st = "run" /\ Has(rest, "$") /\ Nxt = "$"
          /\ acc' = acc \o Str(Sub(rest, 1, D))
          /\ rest' = From(rest, D + 2)
          /\ UNCHANGED <<sc, st, outc>>

(* One reference: copy the prefix, look the name up, append the value.     *)
Deliver(prefix, look, name, newrest) ==
  IF look.has
  THEN /\ acc' = (acc \o Str(prefix)) \o look.v
       /\ rest' = newrest
       /\ UNCHANGED <<sc, st, outc>>
  ELSE Fail(Miss(name))

RefBraced == /\ st = "run" /\ Has(rest, "$") /\ Nxt = "{"
             /\ LET n   == NameLen(rest, D + 2)
                    e   == D + 1 + n             \* m.end() as a 1-based inclusive index
                IN IF n = 0 THEN Fail(Syn)
                   ELSE IF ~(e + 1 <= Len(rest) /\ rest[e + 1] = "}") THEN Fail(Syn)
                   ELSE Deliver(Sub(rest, 1, D - 1),
                                MapVal(sc, LowerSeq(Sub(rest, D + 2, e))),
                                Sub(rest, D + 2, e), From(rest, e + 2))

RefEnv    == /\ st = "run" /\ Has(rest, "$") /\ Nxt = "("
             /\ LET n   == NameLen(rest, D + 2)
                    e   == D + 1 + n
                IN IF n = 0 THEN Fail(Syn)
                   ELSE IF ~(e + 1 <= Len(rest) /\ rest[e + 1] = ")") THEN Fail(Syn)
                   ELSE Deliver(Sub(rest, 1, D - 1),
                                EnvVal(sc, Sub(rest, D + 2, e)),
                                Sub(rest, D + 2, e), From(rest, e + 2))

RefBare   == /\ st = "run" /\ Has(rest, "$") /\ Nxt \notin {"", "$", "{", "("}
             /\ LET n == NameLen(rest, D + 1)
                    e == D + n
                IN IF n = 0 THEN Fail(Syn)
                   ELSE Deliver(Sub(rest, 1, D - 1),
                                MapVal(sc, LowerSeq(Sub(rest, D + 1, e))),
                                Sub(rest, D + 1, e), From(rest, e + 1))

SNext == Identity \/ Enter \/ LoopEnd \/ CopyTail \/ LoneDollar \/ Escape
         \/ RefBraced \/ RefEnv \/ RefBare

-------------------------------------------------------------------------
(* Design-level properties (checked by TLC in every reachable state).      *)
MachineIsReplacement == st = "done" => outc = Replacement(sc)

IdentityWithoutDollar == (st = "done" /\ ~Has(SrcOf(sc), "$")) => outc = Ok(Str(SrcOf(sc)))

(* The scanner only ever shortens the text, by at least one character per  *)
(* iteration: substitution terminates and nothing appended is rescanned.   *)
NoRescan == [][st = "run" /\ st' = "run" => Len(rest') < Len(rest)]_svars

(* A result is only ever extended.                                         *)
TypeOK == /\ st \in {"start", "run", "done"}
          /\ outc.r \in {"ok", "syn", "miss"}
=========================================================================
