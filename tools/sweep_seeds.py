#!/venv/bin/python
"""tools/sweep_seeds.py [--jobs N] [--tier quick] [seed-name ...]

Re-runs the check of each seeded change's own property (and any extra ids
given in its meta.json "also") against a scratch git worktree of /repo with
the patch applied (bin/check honours ZCV_REPO), several at a time.  /repo
itself is not touched.  Updates meta.json "runs" and prints one line per seed.
The official single-seed procedure (patch applied to /repo itself, repository
tests, demo) stays tools/try_seed.py.
"""
import argparse
import json
import os
import shutil
import subprocess
import sys
import tempfile
from concurrent.futures import ThreadPoolExecutor

VERIF = os.path.dirname(os.path.dirname(os.path.abspath(__file__)))


def sh(cmd, **kw):
    return subprocess.run(cmd, shell=True, stdout=subprocess.PIPE, stderr=subprocess.STDOUT, text=True, **kw)


def one(name, tier):
    sd = os.path.join(VERIF, "seeded", name)
    meta_path = os.path.join(sd, "meta.json")
    meta = json.load(open(meta_path))
    pid = name.split("-")[0]
    pids = [pid] + [p for p in meta.get("also", []) if p != pid]
    wt = tempfile.mkdtemp(prefix="zcv-sweep-%s-" % name, dir="/var/tmp")
    os.rmdir(wt)
    out = {}
    try:
        r = sh("git -C /repo worktree add --detach %s HEAD && (git -C %s apply %s/patch.diff || "
               "(git -C %s apply --3way %s/patch.diff && git -C %s reset -q))" % (wt, wt, sd, wt, sd, wt))
        if r.returncode != 0:
            print(name, "patch does not apply:", r.stdout[-300:])
            return name, {"error": r.stdout[-400:]}
        for p in pids:
            scratch = tempfile.mkdtemp(prefix="zcv-sw-", dir="/var/tmp")
            env = dict(os.environ, ZCV_REPO=wt, ZCV_EVIDENCE_DIR=scratch + "/ev", ZCV_REPLAY_DIR=scratch + "/rp")
            c = sh("%s/bin/check %s --tier %s" % (VERIF, p, tier), env=env, cwd=VERIF)
            viol = [l for l in c.stdout.splitlines() if l.startswith("VIOLATION")]
            tail = c.stdout.strip().splitlines()[-1:]
            out[p] = {"exit": c.returncode, "violations": len(viol), "tail": tail}
            summ = [l for l in tail if "violations=" in l]
            if summ:
                try:
                    out[p]["violations_total"] = int(summ[0].split("violations=")[1].split()[0])
                except ValueError:
                    pass
            shutil.rmtree(scratch, ignore_errors=True)
    finally:
        sh("git -C /repo worktree remove --force %s" % wt)
        shutil.rmtree(wt, ignore_errors=True)
    meta.setdefault("sweep", {})[tier] = out
    with open(meta_path, "w") as f:
        json.dump(meta, f, indent=1, sort_keys=True)
    return name, out


def main():
    ap = argparse.ArgumentParser()
    ap.add_argument("names", nargs="*")
    ap.add_argument("--jobs", type=int, default=2)
    ap.add_argument("--tier", default="quick")
    a = ap.parse_args()
    names = a.names or sorted(os.listdir(os.path.join(VERIF, "seeded")))
    missed = 0
    with ThreadPoolExecutor(a.jobs) as ex:
        for name, out in ex.map(lambda n: one(n, a.tier), names):
            own = out.get(name.split("-")[0], {})
            ok = own.get("exit") == 1
            missed += 0 if ok else 1
            print("%-8s %s %s" % (name, "caught" if ok else "MISSED", json.dumps(
                {p: (v.get("exit"), v.get("violations_total", v.get("violations"))) for p, v in out.items()
                 if isinstance(v, dict)})))
            sys.stdout.flush()
    print("missed: %d of %d" % (missed, len(names)))
    return 1 if missed else 0


if __name__ == "__main__":
    sys.exit(main())
