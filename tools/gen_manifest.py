#!/venv/bin/python
"""Regenerates /verif/MANIFEST.json from the table below (single source of
truth for what is claimed).  Run after changing a claim."""
import json
import os

VERIF = os.path.dirname(os.path.dirname(os.path.abspath(__file__)))

CLAIMS = {
    "C04": dict(
        text="TLC explores ZSubst.tla exhaustively (all strings up to the bound over the property's "
             "alphabet x mapping/environment kinds), checks that the scanner machine equals the declarative "
             "maximal-munch replacement and never rescans, and every explored behaviour is replayed on "
             "ZConfig.substitution.substitute/isname; random Unicode executions are recorded and validated "
             "by TLC against the same machine.",
        design="3 (C04), 2.2",
        note="Trusted: TLC, the ~40-line replay/recording driver (harness/zcv/props/c04.py), Python's dict.get and "
             "os.environ as environment. Bounded: exhaustive to length 5 (quick) / 6 (thorough); longer strings only sampled.",
        technique="TLA+ spec ZSubst + TLC exhaustive enumeration replayed on the code; TLC trace validation of recorded runs"),
    "C03": dict(
        text="TLC explores ZLines.tla exhaustively: every line up to the length bound over the property's 16-class "
             "alphabet (longer lines over sub-alphabets) in three contexts, and every text of a few lines over representative "
             "lines; it checks that the operational classifier (the code's slices and scans) equals the declarative grammar and "
             "that the stack machine equals recursive descent; every explored behaviour is replayed on "
             "ZConfig.schemaless.loadConfigFile, and random 40-line Unicode texts recorded from the code are validated by TLC.",
        design="3 (C03)",
        note="Trusted: TLC, the replay/recording driver (harness/zcv/props/c03.py), str.lower()/str.isspace() on non-ASCII "
             "characters as environment tables. Bounded: lines <= 4 (quick) / 5 (thorough) over the full alphabet.",
        technique="TLA+ spec ZLines (classifier + text machine vs declarative grammar) checked by TLC; enumeration replayed on the code; TLC trace validation"),
    "C17": dict(
        text="The round trip load -> str -> load -> str is recorded from the real code for every text of a few lines over "
             "representative lines (values with $$, grammar characters, repeats, nesting, imports) and for random texts; TLC "
             "validates each recorded round trip against ZLines: first outcome, the printed text parsed by the specification's own "
             "grammar has the same structure, the reload equals the first tree, the reprint is identical; %define/%include refused.",
        design="3 (C17)",
        note="Trusted: TLC, the recording driver (harness/zcv/props/c17.py). The printed layout is deliberately not prescribed "
             "(the statement fixes a relation). Bounded corpus + random sampling.",
        technique="TLC trace validation of recorded round trips against the TLA+ spec ZLines (relation, not layout)"),
    "C01": dict(
        text="TLC explores the loader specification (ZLoadFn step function in the feed machine ZLoad) for every schema of a "
             "generated family and every text over the schema's vocabulary up to the line bound, checking in every state that "
             "the machine accepts exactly the texts that satisfy the declarative, counting formulation of conformance "
             "(ZConform!Conforms) and that rejections are configuration errors; every terminal behaviour is replayed on "
             "ZConfig.loadConfigFile against the schema rendered to XML and must be accepted/rejected (with a "
             "ConfigurationError) exactly as the specification says.",
        design="3 (C01), 2.1, Appendix A",
        note="Trusted: TLC, schema rendering (checked by digest against the parsed schema object before any verdict), "
             "reference key-type/datatype tables (harness/zcv/refconv.py). Bounded: texts <= 4 (quick) / 5 (thorough) lines "
             "over <= 20/26 vocabulary lines per schema, 24/40 schemas; slot choice where the first claimer refuses and a "
             "later slot would admit is marked unspecified.",
        technique="TLA+ spec of the loader (step machine vs declarative Conforms) model-checked by TLC; every behaviour replayed on the code"),
    "C02": dict(
        text="Same exploration as C01 with the invariant TreeIsValueTree (the machine's tree equals the declarative "
             "ZConform!ValueTree); for every accepted behaviour the real configuration object is projected attribute by "
             "attribute (names, types, every declared attribute, defaults, order, maps, section datatypes) and compared with "
             "the specification's tree, again after mutating every reachable list/dict and reloading.",
        design="3 (C02)",
        note="Trusted: as C01; converted values compared by repr() against reference conversions. Bounded as C01 "
             "(12 datatype-stress schemas + family).",
        technique="TLA+ spec of the loader (machine tree vs declarative ValueTree) model-checked by TLC; trees compared on the code"),
    "C05": dict(
        text="TLC runs the loader specification (ZLoadFn: StepDefine, Expand, StepInclude) on every sequence of define / use / "
             "include steps up to the bound, checking in every step that a stored definition never changes (DefinesWriteOnce) "
             "and that frames are exactly the open resources; per scenario the specification's outcome (accepted with the "
             "expanded values of every use, or a syntax error) is compared with four executions on the real code: twice "
             "against one schema object and twice through one reused ConfigLoader (no carry-over between loads).",
        design="3 (C05)",
        note="Trusted: TLC, the scenario driver (harness/zcv/scenario.py, props/c05.py). Bounded: sequences <= 3 over 18 steps and "
             "<= 4 over 10 steps (quick), <= 4 / <= 6 (thorough); %include targets resolved by the harness.",
        technique="TLA+ loader spec run by TLC on exhaustively enumerated define/use/include histories; outcomes replayed on the code"),
    "C06": dict(
        text="For base texts (valid, damaged, with definitions and uses) of the schema family and 1..3 balanced cuts each "
             "(nested, same/sub/parent directory, references also written through a definition, the same fragment included "
             "twice), TLC runs the loader specification on the cut scenario and - by self-composition with the big-step form of "
             "the same step function - on the inlined text, checking TwinSameOutcome, LIFO open/close of resources and that an "
             "unbalanced fragment is rejected; both variants are materialised as real files (with decoy files where a wrong base "
             "URL would resolve) and the real outcomes compared with each other and with the specification.",
        design="3 (C06)",
        note="Trusted: TLC, scenario driver (scenario.py, props/c06.py); relative references are resolved by the harness for the "
             "specification (URL arithmetic itself is C18). Random corpus (200 base texts x 11 schemas quick).",
        technique="TLA+ loader spec, self-composition (include vs inline) checked by TLC; both scenarios replayed on the code with real files"),
    "C08": dict(
        text="Accepted random texts of the schema family get exactly one injected fault of each listed kind (malformed line, "
             "bad directive, undefined / malformed substitution, unknown / repeated / unconvertible key, unconvertible value, "
             "unknown / abstract / misplaced header, missing required item or surplus section revealed at close, both spellings "
             "of an empty section) at a random position and are then cut into 0..2 included files, so the culprit (resource, "
             "line) is known by construction; TLC checks on the loader specification that the rejection names exactly that "
             "line and resource (ErrorPositionIsCulprit) and the real exception must carry the same lineno, url, and for "
             "conversion errors the offending text and a ValueError.",
        design="3 (C08)",
        note="Trusted: TLC, fault injection and culprit bookkeeping (props/c08.py; cross-checked against the specification by the "
             "TLC invariant before the code is consulted). Random corpus; top-level required items and schema-side faults are "
             "not among the listed kinds.",
        technique="TLA+ loader spec with error positions, invariant ErrorPositionIsCulprit checked by TLC on fault-injected scenarios; replayed on the code"),
    "C14": dict(
        text="For accepted random texts of the schema family and override lists of 1..4 specifiers, the harness edits the text "
             "as the statement says (first matching child section in file order by name or type, lines of the key dropped, "
             "values appended in the given order, no $-expansion) and TLC checks on the loader specification with option bags, "
             "by self-composition, that text+overrides and the edited text have the same outcome (TwinSameOutcome), that "
             "overrides for missing sections and malformed specifiers are refused; both variants are executed on the real code "
             "and compared with each other and with the specification.",
        design="3 (C14)",
        note="Trusted: TLC, the EditText implementation in props/c14.py (written from the statement, cross-checked against the "
             "specification's option bags by the TLC invariant). Path components are basic-key shaped.",
        technique="TLA+ loader spec with option bags, self-composition (override vs edited text) checked by TLC; replayed on the code"),
    "C16": dict(
        text="TLC runs the loader specification on schemas with handler attributes on random subsets of all items (schema, keys, "
             "multikeys, sections, multisections, nesting 3) and random texts, checking that the handler list built operationally "
             "(appended per item when a section is finished) equals the declarative post-order list read off the parse tree with "
             "the tree's values (HandlerOrderIsPostOrder, TreeIsValueTree2); on the real code len(), the (name, value) call "
             "sequence, identity of the values with the tree's objects, and the all-or-nothing behaviour for incomplete, None and "
             "case-variant-duplicate maps (ZConform!CallOutcome) are compared.",
        design="3 (C16)",
        note="Trusted: TLC, the recording callables and projection in props/c16.py. Random subsets/texts, not exhaustive.",
        technique="TLA+ loader spec handler list vs declarative post-order list checked by TLC; call sequences replayed on the code"),
    "C15": dict(
        text="Random texts of the schema family (conforming, damaged, with definitions) are rewritten by 1..5 of the listed layout "
             "changes (indentation and trailing white space incl. tabs and Unicode spaces, blank/comment lines, letter case of "
             "types, names, keys, defined names and references, <t/> vs <t></t>, reordering key lines); TLC checks on the "
             "composed specification ZLinesFn . ZLoadFn, by self-composition, that original and rewritten text have the same "
             "outcome (wildcard maps compared as mappings), and both are executed on the real code and compared with each "
             "other and with the specification.",
        design="3 (C15)",
        note="Trusted: TLC, the rewrite operators in props/c15.py. Random corpus over the 13 interaction schemas; the shipped "
             "logger / basic-mapping components are exercised by C20 and not yet by this check.",
        technique="TLA+ line grammar + loader spec, self-composition (original vs rewritten) checked by TLC; both replayed on the code"),
    "C07": dict(
        text="TLC runs the composed specification ZLinesFn . ZLoadFn on valid texts mutated at character / token / line level, "
             "on mutated override lists and on every include graph over three files (cyclic ones included), checking that "
             "every behaviour terminates in a configuration or one of the configuration-error kinds (OnlyConfigErrors; an "
             "include cycle is refused); the real entry points must likewise end in a configuration or a ConfigurationError, "
             "and validator.main on groups of these files must return 0/1 with one message per invalid file and never raise.",
        design="3 (C07)",
        note="Trusted: TLC, mutation operators in props/c07.py. Only internal exceptions and the validator's behaviour are "
             "judged; accept/reject disagreements with the specification are counted in the evidence and left to C01/C03.",
        technique="TLA+ line grammar + loader spec (no internal outcome, terminates) checked by TLC on mutated inputs; executions on the code must stay in the spec's outcome space"),
    "C12": dict(
        text="For schemas with abstract types and implementing / extending / unrelated concrete types TLC runs the loader "
             "specification on every text of a few lines over %import of generated component packages (and of names that are "
             "no component) and headers of every schema and package type; each is replayed on the real code with the packages "
             "on sys.path (slot admits exactly the implementers, from the importing line onward, idempotent, refused for "
             "non-components). Sessions of up to 4 loads against one schema object are recorded (outcome and implementer table "
             "after every load) and validated by TLC against MC_ZSession: every outcome equals the specification's outcome of "
             "that load alone and the schema's description does not change.",
        design="3 (C12), 1.3 D9",
        note="Trusted: TLC, generated packages (harness/zcv/packages.py), digest of the real schema object. Known finding D9: "
             "imported implementer names leak into the application schema's abstract types (reported as KNOWN-FINDING; any "
             "other change of the schema or any outcome that depends on history is a VIOLATION).",
        technique="TLA+ loader spec (slot search, %import) model-checked on enumerated texts and replayed; TLC trace validation of recorded load sessions"),
    "C13": dict(
        text="Random sessions of up to 5 (quick) / 8 operations against one schema object - loads of valid texts, of texts with a "
             "fault at each stage, with %import, with overrides, and mutation of everything reachable from returned "
             "configurations - are recorded from the real code with the outcome and the schema digest after every operation and "
             "validated by TLC against MC_ZSession (each outcome equals the specification's outcome of that load alone; the "
             "digest never changes); every load is also repeated against a freshly loaded copy of the schema.",
        design="3 (C13), 1.3 D9",
        note="Trusted: TLC, digest of the real schema object, recording driver. Known finding D9 (implementer names of "
             "%import-ed types leak into the application schema) is reported as KNOWN-FINDING; everything else is a VIOLATION.",
        technique="TLC trace validation of recorded load/mutate sessions against the TLA+ session spec over the loader spec"),
    "C19": dict(
        text="TLC runs the loader specification with its open/close event history on configuration scenarios (0..3 included "
             "files, %import, missing include targets) x every failure point - a read failure at line n of resource r for all "
             "(r, n), a datatype function that raises at each position, a section datatype that raises - checking "
             "AllClosedAtEnd, LifoClose and that parser frames are exactly the open resources; the real load runs with the same "
             "fault injected and its open/close sequence must equal the specification's, all Resource objects must report "
             "closed, and the clean load afterwards must behave as specified. Every recorded event trace - also of schema "
             "loads over an extends / import graph with read faults, XML errors, schema errors, missing, non-UTF-8 and "
             "unreadable resources - is validated by TLC against ZResources (streams closed as soon as read, LIFO nesting, "
             "nothing open at the end).",
        design="3 (C19), 1.2",
        note="Trusted: TLC, the run-time wrappers of ZConfig.loader.Resource and urllib.request.urlopen (harness/zcv/obs.py). "
             "Schema loading is covered at the level of the resource discipline only (no ZSchemaLang events yet).",
        technique="TLA+ loader spec with resource events + fault actions model-checked and replayed with injected faults; TLC trace validation against the resource-discipline spec"),
    "C09": dict(
        text="For every datatype of the stock registry with a documented contract TLC enumerates all strings up to a per-type "
             "bound over a per-type alphabet, checks the documented contract (acceptance shapes, lower-casing, ranges, suffix "
             "tables, default host, bracket rule, idempotent key normalisers) on the transcription of the code's case analysis "
             "in ZDatatypes.tla, and every (string, result) is replayed on Registry().get(name); for the regular-expression "
             "types the live pattern object is compiled to a DFA and TLC explores its product with the documented automaton "
             "(ZRegex.tla: same language for strings of every length); random Unicode strings check totality.",
        design="3 (C09), 2.2",
        note="Trusted: TLC, the regex->DFA construction (self-checked against re.fullmatch on short strings), Python's int / "
             "float / inet_pton / timedelta as environment. existing-* and locale: totality only.",
        technique="TLA+ transcription + contract per datatype checked by TLC on exhaustive bounded enumeration, replayed on the code; TLC product exploration live-regex DFA x spec automaton"),
}

NOT_YET = "check not built yet (construction order in DESIGN.md section 8)"


def main():
    props = [json.loads(l) for l in open(os.path.join(VERIF, "properties.jsonl"))]
    checks = []
    na = []
    for p in props:
        pid = p["id"]
        c = CLAIMS.get(pid)
        if c is None:
            na.append({"property_id": pid, "reason": NOT_YET})
            continue
        checks.append({
            "property_id": pid,
            "quick_cmd": "bin/check %s --tier quick" % pid,
            "thorough_cmd": "bin/check %s --tier thorough" % pid,
            "evidence_file": "/verif/evidence/%s.json" % pid,
            "replay_cmd_template": "bin/check %s --replay {path}" % pid,
            "engine": "tlc",
            "level_claimed": {"category": "model_checking", "text": c["text"],
                              "design_ref": c["design"]},
            "level_note": c["note"],
            "technique": c["technique"],
        })
    m = {
        "version": 1,
        "setup_cmd": "true",
        "hooks": {
            "guard": "ZCONFIG_VERIF",
            "enable": "no hooks: every observation goes through public entry points and documented "
                      "extension points (DESIGN.md section 6)",
            "baseline_off_cmd": "cd /repo && /venv/bin/python -m pytest -ra -q -p no:cacheprovider "
                                "--timeout=900 --continue-on-collection-errors",
            "source_commits": [],
            "add_only": True,
        },
        "engines": [{
            "name": "tlc", "path": "/opt/veriftools/tla/tla2tools.jar",
            "serves_properties": [c["property_id"] for c in checks],
            "kind_free_text": "explicit-state model checker for the TLA+ specifications in /verif/spec; "
                              "bound to the code by harness/zcv (replay of TLC behaviours, TLC validation of recorded traces)",
        }],
        "checks": checks,
        "notes": "bin/check <id> --tier quick|thorough; exit 2 = machinery failure (never a verdict). "
                 "VERIF_SEED seeds all random choices. Scratch space under $ZCV_SCRATCH (default /var/tmp).",
        "not_applicable": na,
    }
    with open(os.path.join(VERIF, "MANIFEST.json"), "w") as f:
        json.dump(m, f, indent=1)
        f.write("\n")
    print("claimed:", [c["property_id"] for c in checks])


if __name__ == "__main__":
    main()
