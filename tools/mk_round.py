#!/venv/bin/python
"""tools/mk_round.py <root> <property id> [...]  [--prompt tools/seed_prompt3.txt]

Prepares one seeding job per property under <root>/<id>/ (outside /repo and
/verif): a scratch git worktree of /repo (wt/), an output directory (out/)
holding property.json and INSTRUCTIONS.md - the prompt template filled in with
the property text and, per property, the one-line descriptions of the changes
delivered in earlier rounds (taken from the table of DESIGN.md section 11), so
that a sub-agent does not re-deliver them.  Nothing else from /verif is shown
to the sub-agent.
"""
import argparse
import json
import os
import re
import subprocess
import sys

VERIF = os.path.dirname(os.path.dirname(os.path.abspath(__file__)))


def earlier(pid):
    rows = []
    for line in open(os.path.join(VERIF, "DESIGN.md")):
        m = re.match(r"^\| (C\d\d)-m\d+ \| (.*?) \| (.*?) \| .*\|\s*$", line)
        if m and m.group(1) == pid:
            rows.append("  - %s - needs: %s" % (m.group(2), m.group(3)))
    return "\n".join(rows) or "  (none yet)"


def main():
    ap = argparse.ArgumentParser()
    ap.add_argument("root")
    ap.add_argument("pids", nargs="+")
    ap.add_argument("--prompt", default=os.path.join(VERIF, "tools", "seed_prompt3.txt"))
    a = ap.parse_args()
    props = {}
    for l in open(os.path.join(VERIF, "properties.jsonl")):
        d = json.loads(l)
        props[d["id"]] = d
    tmpl = open(a.prompt).read()
    for pid in a.pids:
        base = os.path.join(a.root, pid)
        wt, out = os.path.join(base, "wt"), os.path.join(base, "out")
        os.makedirs(out, exist_ok=True)
        if not os.path.exists(wt):
            r = subprocess.run(["git", "-C", "/repo", "worktree", "add", "--detach", wt, "HEAD"],
                               stdout=subprocess.PIPE, stderr=subprocess.STDOUT, text=True)
            if r.returncode != 0:
                print(r.stdout)
                return 2
        pj = json.dumps(props[pid], indent=1)
        with open(os.path.join(out, "property.json"), "w") as f:
            f.write(pj)
        text = (tmpl.replace("@WT@", wt).replace("@OUT@", out).replace("@PROPERTY@", pj)
                .replace("@EARLIER@", earlier(pid)))
        with open(os.path.join(out, "INSTRUCTIONS.md"), "w") as f:
            f.write(text)
        print(pid, os.path.join(out, "INSTRUCTIONS.md"))
    return 0


if __name__ == "__main__":
    sys.exit(main())
