#!/usr/bin/env python3
"""tools/manifest_add.py <id> <json-file>: add or replace the check of one property in MANIFEST.json
(json: level_text, level_note, technique, design_ref) and drop it from not_applicable."""
import json
import sys

pid, src = sys.argv[1], sys.argv[2]
spec = json.load(open(src))
m = json.load(open("/verif/MANIFEST.json"))
chk = {"property_id": pid, "quick_cmd": "bin/check %s --tier quick" % pid,
       "thorough_cmd": "bin/check %s --tier thorough" % pid,
       "evidence_file": "/verif/evidence/%s.json" % pid,
       "replay_cmd_template": "bin/check %s --replay {path}" % pid, "engine": "tlc",
       "level_claimed": {"category": "model_checking", "text": spec["level_text"], "design_ref": spec["design_ref"]},
       "level_note": spec["level_note"], "technique": spec["technique"]}
m["checks"] = [c for c in m["checks"] if c["property_id"] != pid] + [chk]
m["checks"].sort(key=lambda c: c["property_id"])
m["not_applicable"] = [n for n in m.get("not_applicable", []) if n["property_id"] != pid]
for e in m["engines"]:
    if e["name"] == "tlc" and pid not in e["serves_properties"]:
        e["serves_properties"] = sorted(e["serves_properties"] + [pid])
json.dump(m, open("/verif/MANIFEST.json", "w"), indent=1)
open("/verif/MANIFEST.json", "a").write("\n")
