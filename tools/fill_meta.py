#!/venv/bin/python
"""tools/fill_meta.py - copies, for every seeded change, the row of the table in DESIGN.md section 11 into
seeded/<name>/meta.json: which property the change breaks, what it is, what it needs in order to manifest and
which check detects it (next to what was run: try_seed.py / sweep_seeds.py keep "runs" / "sweep" there)."""
import json
import os
import re
import sys

VERIF = os.path.dirname(os.path.dirname(os.path.abspath(__file__)))


def main():
    rows = {}
    for line in open(os.path.join(VERIF, "DESIGN.md")):
        m = re.match(r"^\| (C\d\d-m\d+) \| (.*?) \| (.*?) \| (.*?) \|\s*$", line)
        if m:
            rows[m.group(1)] = m.groups()[1:]
    missing = []
    for name in sorted(os.listdir(os.path.join(VERIF, "seeded"))):
        mp = os.path.join(VERIF, "seeded", name, "meta.json")
        meta = json.load(open(mp)) if os.path.exists(mp) else {}
        if name not in rows:
            missing.append(name)
            continue
        what, needs, det = rows[name]
        meta.update({"property": name.split("-")[0], "what": what, "needs": needs, "detected_by": det,
                     "first_missed": "(after" in det})
        with open(mp, "w") as f:
            json.dump(meta, f, indent=1, sort_keys=True)
    extra = sorted(set(rows) - set(os.listdir(os.path.join(VERIF, "seeded"))))
    print("seeds: %d, without a table row: %s, rows without a seed: %s" % (len(rows), missing, extra))
    return 1 if missing or extra else 0


if __name__ == "__main__":
    sys.exit(main())
