#!/venv/bin/python
"""tools/try_seed.py <seed-name> <property id> [more ids...] [--from DIR] [--tier quick]

Confirms a seeded change (patch.diff + demo.py) and runs the given checks
against it:  demo passes on the clean tree, patch applies, repository tests
still pass, demo fails with the patch, then bin/check <id> for every id.  The
patch is applied to /repo's working tree and undone straight afterwards.
Results are written to /verif/seeded/<seed-name>/meta.json (field "runs").
"""
import argparse
import json
import os
import shutil
import subprocess
import sys
import tempfile
import time

VERIF = os.path.dirname(os.path.dirname(os.path.abspath(__file__)))
REPO = "/repo"


def sh(cmd, **kw):
    return subprocess.run(cmd, shell=True, stdout=subprocess.PIPE, stderr=subprocess.STDOUT, text=True, **kw)


def main():
    ap = argparse.ArgumentParser()
    ap.add_argument("name")
    ap.add_argument("pids", nargs="+")
    ap.add_argument("--from", dest="src", default=None)
    ap.add_argument("--tier", default="quick")
    ap.add_argument("--wt", action="store_true",
                    help="work on a scratch git worktree of /repo (bin/check honours ZCV_REPO) instead of /repo itself, "
                         "so that several seeds can be tried at once and other checks may run meanwhile")
    a = ap.parse_args()
    global REPO
    wt = None
    if a.wt:
        wt = tempfile.mkdtemp(prefix="zcv-try-%s-" % a.name, dir="/var/tmp")
        os.rmdir(wt)
        r = sh("git -C /repo worktree add --detach %s HEAD" % wt)
        if r.returncode != 0:
            print(r.stdout)
            return 2
        REPO = wt
    sd = os.path.join(VERIF, "seeded", a.name)
    if a.src:
        os.makedirs(sd, exist_ok=True)
        for fn in ("patch.diff", "demo.py", "notes.md"):
            if os.path.exists(os.path.join(a.src, fn)):
                shutil.copy(os.path.join(a.src, fn), os.path.join(sd, fn))
    patch = os.path.join(sd, "patch.diff")
    demo = os.path.join(sd, "demo.py")
    meta_path = os.path.join(sd, "meta.json")
    meta = json.load(open(meta_path)) if os.path.exists(meta_path) else {}
    if not a.wt and sh("git -C %s status --porcelain --untracked-files=no" % REPO).stdout.strip():
        print("refusing: /repo has uncommitted changes")
        return 2
    env = dict(os.environ, PYTHONPATH=REPO + "/src")
    r0 = sh("/venv/bin/python %s" % demo, env=env, cwd=tempfile.gettempdir())
    ap_ = sh("git -C %s apply %s || (git -C %s apply --3way %s && git -C %s reset -q)" % (REPO, patch, REPO, patch, REPO))
    scratch = tempfile.mkdtemp(prefix="zcv-seed-", dir="/var/tmp")
    runs = {}
    try:
        if ap_.returncode != 0:
            print("patch does not apply:\n" + ap_.stdout)
            meta["applies"] = False
            return 2
        tests = sh("cd %s && PYTHONPATH=%s/src /venv/bin/python -m pytest -q -p no:cacheprovider -x --deselect "
                   "src/ZConfig/tests/test_validator.py::TestValidator::test_schema_only 2>&1 | tail -1" % (REPO, REPO))
        r1 = sh("/venv/bin/python %s" % demo, env=env, cwd=tempfile.gettempdir())
        print("demo clean exit=%d, with change exit=%d; tests: %s" % (r0.returncode, r1.returncode, tests.stdout.strip()))
        for pid in a.pids:
            t0 = time.time()
            e = dict(os.environ, ZCV_EVIDENCE_DIR=os.path.join(scratch, "ev"), ZCV_REPLAY_DIR=os.path.join(scratch, "rp"))
            if wt:
                e["ZCV_REPO"] = wt
            c = sh("%s/bin/check %s --tier %s" % (VERIF, pid, a.tier), env=e, cwd=VERIF)
            viol = [l for l in c.stdout.splitlines() if l.startswith("VIOLATION")]
            first = None
            if viol:
                rp = viol[0].split("replay=")[1]
                try:
                    first = json.load(open(rp))
                    first = {k: first[k] for k in first if k in ("clause", "input", "class", "direction")}
                except Exception:
                    pass
            tail = c.stdout.strip().splitlines()[-1:] 
            runs[pid] = {"exit": c.returncode, "violations": len(viol), "first": first,
                         "wall_s": round(time.time() - t0, 1), "tail": tail}
            print("  check %s: exit=%d violation-lines=%d (%.0fs) %s" % (pid, c.returncode, len(viol), time.time() - t0, tail))
            if c.returncode == 2:
                print(c.stdout[-1500:])
        meta.update({"demo_exit_clean": r0.returncode, "demo_exit_with_change": r1.returncode,
                     "repo_tests_with_change": tests.stdout.strip(), "applies": True})
        meta.setdefault("runs", {}).update(runs)
    finally:
        if wt:
            sh("git -C /repo worktree remove --force %s" % wt)
            shutil.rmtree(wt, ignore_errors=True)
        else:
            sh("git -C %s reset -q --hard HEAD && git -C %s clean -fdq src" % (REPO, REPO))
        shutil.rmtree(scratch, ignore_errors=True)
        with open(meta_path, "w") as f:
            json.dump(meta, f, indent=1, sort_keys=True)
    return 0


if __name__ == "__main__":
    sys.exit(main())
