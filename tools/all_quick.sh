#!/bin/bash
# tools/all_quick.sh <seed> [tier]: every check once under the given seed; evidence and replays go to a scratch
# directory (the committed evidence is not touched); prints one line per check and every VIOLATION line.
seed=${1:-0}; tier=${2:-quick}
out=$(mktemp -d /var/tmp/zcv-allq-XXXXXX)
export VERIF_SEED=$seed ZCV_EVIDENCE_DIR=$out/ev ZCV_REPLAY_DIR=$out/rp
cd "$(dirname "$0")/.."
for c in C01 C02 C03 C04 C05 C06 C07 C08 C09 C10 C11 C12 C13 C14 C15 C16 C17 C18 C19 C20; do
  bin/check $c --tier $tier 2>&1 | grep -E "^(VIOLATION|MACHINERY|  clause|C[0-9][0-9] (quick|thorough))" | cut -c1-260
done
echo "seed $seed done; replays (if any) under $out/rp"
